#!/usr/bin/env python3
"""Regenerates /verif/MANIFEST.json from the table below (kept in one place so it stays valid)."""
import json, subprocess, os

HOOK_COMMITS = subprocess.run(
    ["git", "-C", "/repo", "log", "--format=%h %s", "--grep=^verif:"],
    capture_output=True, text=True).stdout.strip().splitlines()

CHECKS = {
 # id: (engine, level, text, note, technique, design_ref)
 "C01": ("seq", "exploration",
   "Seeded search over sequential histories (writes x rotate/flush/leveled/major/move-down/pull-down/reopen) and tree configurations; every point-read API of every universe key is compared with a map model after every step. Sampling, not proof; exploration is the right level because the quantifier is over unbounded histories and configurations.",
   "Trusts the reference model (versioned map), the generator's usage envelope (DESIGN 5) and tmpfs as byte store.",
   "deterministic simulation: seeded sequential history vs reference model", "4/C01"),
 "C02": ("seq", "exploration",
   "Histories with up to 4 live snapshots and watermarks drawn strictly below them; each live snapshot re-reads everything after every step and must equal the view frozen at open time.",
   "Assumes the documented protocol: snapshot = visible_seqno.get(), watermark < every live snapshot.",
   "deterministic simulation: snapshot tracker vs frozen model views", "4/C02"),
 "C03": ("seq", "exploration",
   "Range/prefix/iter/first/last/len/is_empty with adversarial bounds and next/next_back words, optional overlay memtable, on layouts produced by flush/compaction histories, compared with the model restricted to the bounds.",
   "Same trusted base as C01.",
   "deterministic simulation: seeded history + scan words vs reference model", "4/C03"),
 "C04": ("seq", "exploration",
   "Drop+open at drawn positions; content with sequence numbers, table/blob ids per level, persisted seqno, GC stats and id counters are compared before/after, then the history continues.",
   "Clean close only (no crash): C05 covers crashes.",
   "deterministic simulation: history with reopen vs reference model", "4/C04"),
 "C05": ("crash", "fault_enumeration",
   "Every history is journaled at the libc boundary; crash images are synthesised for journal prefixes under strict / lucky / ordered-prefix / random-permissive persistence outcomes (incl. torn writes) and the real recovery is run on each image in a forked child; the recovered dump must equal the logical content before or after the interrupted operation and never be below a returned durable operation. Thorough enumerates every prefix of bounded histories.",
   "Persistence model: permissive POSIX with atomic rename (DESIGN 2.1); tmpfs trusted as byte store; outcome space sampled except the two extremes.",
   "deterministic simulation: libc-level journal -> crash-image enumeration -> real recovery", "4/C05"),
 "C06": ("conc", "exploration",
   "Real threads (writer, readers, flusher, compactors, major/drop_range) run the real code under a baton scheduler that decides every hand-off at lock probes, seqno/memtable primitives and file-system calls (random and PCT); every read is checked against the model with the precise in-flight window, then quiescence, audit, flush+reopen.",
   "Sequential consistency only (one thread at a time); granularity = the tree's critical sections.",
   "deterministic simulation: seeded baton scheduler over real threads + reference model", "4/C06"),
 "C07": ("seq", "exploration",
   "Structural audit (full table scans, run disjointness, recency order, metadata, files, version file) after every version change of sequential histories.",
   "Audit uses the crate's own table iterator and version decoder.",
   "deterministic simulation: structural audit of every published version", "4/C07"),
 "C08": ("seq", "exploration",
   "Blob tree with drawn separation knobs under the C01-C04 workload vs the model a standard tree satisfies.",
   "Same as C01; equivalence to a standard tree is by both satisfying the same model.",
   "deterministic simulation: blob-tree history vs reference model", "4/C08"),
 "C09": ("seq", "exploration",
   "Per-version recomputation of blob garbage from table scans vs gc_stats / stale_blob_bytes, pointer safety, dead-file liveness within one merge, equality across reopen.",
   "On-disk bytes only checked for files whose blobs were all observed.",
   "deterministic simulation: recomputation of blob garbage from table scans", "4/C09"),
 "C10": ("corrupt", "fault_enumeration",
   "Bit flips and truncations of every persisted file of small trees; each attempt reopens in a forked child and re-asks every question; only a different answer returned as Ok is a violation. Thorough enumerates every byte position.",
   "Single-fault model (one altered byte or one truncation per attempt); cache empty at reopen.",
   "deterministic simulation: stored-byte fault enumeration with forked re-open", "4/C10"),
 "C11": ("multi", "exploration",
   "2-4 trees with independently drawn configurations fed one history on one shared cache and descriptor table (capacities incl. 0/1/none, coinciding table ids); every read of every tree must equal the model.",
   "Same as C01.",
   "deterministic simulation: lock-step trees on shared cache/fd table vs reference model", "4/C11"),
 "C13": ("seq", "exploration",
   "Single-delete key class cycling insert/remove_weak under flush/compaction/watermark interleavings, tracked through memtable loss at reopen.",
   "Discipline enforced by the generator and re-validated during minimisation.",
   "deterministic simulation: single-delete discipline history vs reference model", "4/C13"),
 "C14": ("seq", "exploration",
   "Ingestion interleaved with writes between ingestion() and finish(), snapshots before/in between/after, flush/compact/reopen. Every fourth run is a schedule run: an ingester thread (own key class, standard tree) next to a writer that also rotates, a flusher, compactors and readers that hold snapshots; every acknowledged write and every finished ingestion must be readable, ingested batches appear atomically.",
   "Ingested batch seqno read back as seqno counter - 1 after finish().",
   "deterministic simulation: ingestion history vs reference model", "4/C14"),
 "C15": ("seq", "exploration",
   "drop_range with bounds around table edges and clear; outside-R keys and earlier snapshots unchanged; dropped tables wholly inside R by their real first/last key; inside R the model re-synchronises from a physical audit. Every fourth run is a schedule run: a clear() thread next to writer, readers, flusher and compactors under the baton scheduler, judged with begin/end event windows (a write/snapshot in flight during the clear may go either way, everything else is exact), quiescent content, flush + reopen.",
   "Nothing is demanded for keys inside R (the property says nothing about them).",
   "deterministic simulation: drop_range/clear history vs model + physical audit", "4/C15"),
 "C16": ("fault", "fault_enumeration",
   "Dry run counts the file-system calls of each durable operation; then one call at a time fails with ENOSPC/EIO (plus legal short writes / EINTR); reads must be unchanged, retry must succeed, reopen must give before/after. Thorough enumerates every call index.",
   "One fault at a time; fault clears after firing.",
   "deterministic simulation: libc-level I/O error enumeration per operation", "4/C16"),
 "C17": ("seq", "exploration",
   "Logging compaction filter with a seeded pure verdict function; model applies each verdict to exactly the shown version.",
   "Filter deterministic and panic-free; RemoveWeak/Destroy only for write-once keys.",
   "deterministic simulation: logging compaction filter + reference model", "4/C17"),
 "C18": ("seq", "exploration",
   "Highest-seqno APIs vs maximum found by scanning all tables / model memtable maximum after every version change and across reopen.",
   "Same as C07.",
   "deterministic simulation: audit of stored sequence numbers vs API", "4/C18"),
 "C19": ("seq", "exploration",
   "Append-only histories under a simulated clock; FIFO(limit, ttl) drop relation on created_at/expiry, retained keys readable, also after reopen.",
   "Clock monotone; size limit compared with file sizes incl. blob files.",
   "deterministic simulation with simulated clock: FIFO drop relation", "4/C19"),
 "C20": ("seq", "exploration",
   "readdir vs files named by retained versions / live snapshots after every version change, retention bound after maintenance, exact equality after reopen and after a final release-everything phase.",
   "Reclamation is demanded relative to the versions the watermark rule retains (DESIGN 4/C20).",
   "deterministic simulation: directory listing vs retained versions", "4/C20"),
}

BUILT = os.environ.get("BUILT", "").split(",") if os.environ.get("BUILT") else None

def main():
    built = []
    out = subprocess.run(["/verif/sim/target/release/lsmsim", "list"], capture_output=True, text=True)
    built = out.stdout.split()
    checks = []
    for pid in sorted(CHECKS):
        if pid not in built:
            continue
        eng, level, text, note, tech, ref = CHECKS[pid]
        checks.append({
            "property_id": pid,
            "quick_cmd": f"./check {pid} quick",
            "thorough_cmd": f"./check {pid} thorough",
            "evidence_file": f"/verif/evidence/{pid}.json",
            "replay_cmd_template": "./sim/target/release/lsmsim replay {path}",
            "engine": "lsmsim",
            "level_claimed": {"category": level, "text": text, "design_ref": f"DESIGN.md section {ref}"},
            "level_note": note,
            "technique": tech,
        })
    na = [{"property_id": "C12", "reason": "pure function of (item stream, writer settings, probe): no schedule, clock, fault, crash point or history is quantified, so deterministic simulation with fault injection has nothing to decide; it is a property-based-testing/fuzzing target (DESIGN.md section 4/C12)"}]
    for pid in sorted(CHECKS):
        if pid not in built:
            na.append({"property_id": pid, "reason": "not claimed yet: the check for this property is designed (DESIGN.md section 4) but not built in this round"})
    m = {
        "version": 1,
        "setup_cmd": "cd /verif/sim && CARGO_NET_OFFLINE=true cargo build --release --offline",
        "hooks": {
            "guard": "cargo feature `verif` of lsm-tree (off by default)",
            "enable": "the simulator depends on lsm-tree = { path = \"/repo\", features = [\"verif\", \"lz4\"] }; ./check rebuilds it from /repo's working tree",
            "baseline_off_cmd": "cd /repo && cargo nextest run --workspace --no-fail-fast --tool-config-file pb:/w/lib/nextest.toml --profile pb --test-threads 8 --offline",
            "source_commits": [l.split()[0] for l in HOOK_COMMITS],
            "add_only": True,
        },
        "engines": [{
            "name": "lsmsim",
            "path": "/verif/sim",
            "serves_properties": [c["property_id"] for c in checks],
            "kind_free_text": "deterministic simulator: libc-level simulated disk (journal, durability model, crash images, I/O faults, byte corruption), baton scheduler over real threads, simulated clock, reference model, structural auditor; fork-per-run pool; seeded, replayable, minimising",
        }],
        "checks": checks,
        "not_applicable": na,
        "notes": "All checks: ./check <Cnn> <quick|thorough> (VERIF_SEED respected, default 0). Exit 0 held, 1 violation with VIOLATION line, 2 harness error. known_findings.json lists findings (all currently fixed by fix: commits in /repo).",
    }
    json.dump(m, open("/verif/MANIFEST.json", "w"), indent=1)
    print("wrote MANIFEST.json with", len(checks), "checks;", len(na), "not claimed")

main()
