#!/usr/bin/env python3-vt
"""Validates MANIFEST.json and every evidence file against the schemas in /root/.vp."""
import json, sys, glob, jsonschema
ok = True
m = json.load(open('/verif/MANIFEST.json'))
try:
    jsonschema.validate(m, json.load(open('/root/.vp/MANIFEST.schema.json')))
    print("MANIFEST.json valid")
except Exception as e:
    ok = False; print("MANIFEST invalid:", e)
es = json.load(open('/root/.vp/EVIDENCE.schema.json'))
for f in sorted(glob.glob('/verif/evidence/*.json')):
    try:
        jsonschema.validate(json.load(open(f)), es); print(f, "valid")
    except Exception as e:
        ok = False; print(f, "INVALID:", str(e)[:300])
props = [json.loads(l)['id'] for l in open('/verif/properties.jsonl')]
claimed = {c['property_id'] for c in m['checks']}
na = {c['property_id'] for c in m.get('not_applicable', [])}
for p in props:
    if (p in claimed) == (p in na):
        ok = False; print("property", p, "must be exactly one of claimed / not_applicable")
sys.exit(0 if ok else 1)
