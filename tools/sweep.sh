#!/bin/bash
# Zero-alarm sweep: runs every registered check (quick tier) under several VERIF_SEEDs with a
# private output directory and reports every check/seed that exits non-zero.
# usage: tools/sweep.sh "<seeds>" [check ids...]
# env: SWEEP_TIER=quick|thorough (default quick), SWEEP_WALL_CAP=<seconds per check> (optional)
cd "$(dirname "$0")/.." || exit 2
SEEDS="${1:-1 2 3}"; shift
CHECKS="${*:-$(./sim/target/release/lsmsim list 2>/dev/null || echo)}"
OUT=$(mktemp -d /tmp/lsmsim-sweep.XXXXXX); cp known_findings.json "$OUT"/
(cd sim && CARGO_NET_OFFLINE=true cargo build --release --offline >/dev/null 2>&1) || { echo "build failed"; exit 2; }
echo "build done"
[ -z "$CHECKS" ] && CHECKS=$(./sim/target/release/lsmsim list)
bad=0
for s in $SEEDS; do for c in $CHECKS; do
  out=$(VERIF_SEED=$s LSMSIM_VERIF_DIR=$OUT ./sim/target/release/lsmsim check $c --tier ${SWEEP_TIER:-quick} ${SWEEP_WALL_CAP:+--wall-cap $SWEEP_WALL_CAP} 2>&1); code=$?
  line=$(echo "$out" | tail -1 | cut -c1-160)
  if [ $code -ne 0 ]; then bad=$((bad+1)); echo "ALARM seed=$s $c exit=$code"; echo "$out" | grep -E "^VIOLATION|HARNESS" | head -3 | cut -c1-600; mkdir -p replays-sweep; cp $OUT/replays/$c-*.json replays-sweep/ 2>/dev/null; fi
  echo "seed=$s $line"
done; done
echo "sweep done: $bad alarm(s)"
rm -rf "$OUT"
