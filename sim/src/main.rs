//! lsmsim — deterministic simulation with fault injection for fjall-rs/lsm-tree.
//!
//!   lsmsim check <Cnn> [--tier quick|thorough] [--runs N] [--jobs J]
//!   lsmsim replay <file>
//!   lsmsim run-one <Cnn> <index> [--tier ..]        (debug: in-process, verbose)
//!   lsmsim selftest determinism <Cnn> [--runs N]
//!
//! Exit codes: 0 held, 1 violation (with `VIOLATION property=<id> replay=<path>`), 2 harness error.

mod audit;
mod conc;
mod corrupt;
mod crash;
mod engine;
mod fault;
mod gen;
mod model;
mod multi;
mod pool;
mod props;
mod rng;
mod runner;
mod sched;
mod simfs;
mod spec;

use std::collections::{BTreeMap, BTreeSet};

fn arg_value(args: &[String], name: &str) -> Option<String> {
    args.iter()
        .position(|a| a == name)
        .and_then(|i| args.get(i + 1).cloned())
}

fn base_seed() -> u64 {
    std::env::var("VERIF_SEED")
        .ok()
        .and_then(|s| s.trim().parse::<u64>().ok())
        .unwrap_or(0)
}

fn verif_dir() -> std::path::PathBuf {
    std::env::var("LSMSIM_VERIF_DIR")
        .map(std::path::PathBuf::from)
        .unwrap_or_else(|_| std::path::PathBuf::from("/verif"))
}

fn main() {
    let args: Vec<String> = std::env::args().collect();
    if args.len() < 2 {
        eprintln!("usage: lsmsim check|replay|run-one|selftest ...");
        std::process::exit(2);
    }
    sched::install_hooks();
    sched::clock_enable();
    let code = match args[1].as_str() {
        "check" => cmd_check(&args[2..]),
        "replay" => cmd_replay(&args[2..]),
        "run-one" => cmd_run_one(&args[2..]),
        "selftest" => cmd_selftest(&args[2..]),
        "list" => {
            for p in props::all_props() {
                println!("{}", p.id);
            }
            0
        }
        other => {
            eprintln!("unknown command {other}");
            2
        }
    };
    std::process::exit(code);
}

#[derive(serde::Deserialize, Debug, Clone)]
struct KnownFinding {
    property: String,
    /// structural signature = violation class
    signature: String,
    status: String,
    description: String,
    #[serde(default)]
    #[allow(dead_code)]
    commit: Option<String>,
}

fn load_known_findings() -> Vec<KnownFinding> {
    let p = verif_dir().join("known_findings.json");
    match std::fs::read_to_string(&p) {
        Ok(s) => match serde_json::from_str::<Vec<KnownFinding>>(&s) {
            Ok(v) => v,
            Err(e) => {
                eprintln!("HARNESS-ERROR: cannot parse {}: {e}", p.display());
                std::process::exit(2);
            }
        },
        Err(_) => vec![],
    }
}

fn cmd_check(args: &[String]) -> i32 {
    let Some(id) = args.first() else {
        eprintln!("usage: lsmsim check <Cnn> [--tier quick|thorough]");
        return 2;
    };
    let Some(prop) = props::find(id) else {
        eprintln!("HARNESS-ERROR: no check registered for {id}");
        return 2;
    };
    let tier = arg_value(args, "--tier")
        .or_else(|| std::env::var("VERIF_TIER").ok())
        .unwrap_or_else(|| "quick".into());
    let runs = arg_value(args, "--runs")
        .and_then(|s| s.parse().ok())
        .unwrap_or(if tier == "thorough" {
            prop.thorough_runs
        } else {
            prop.quick_runs
        });
    let jobs: usize = arg_value(args, "--jobs")
        .and_then(|s| s.parse().ok())
        .unwrap_or(16);
    let wall_cap: f64 = arg_value(args, "--wall-cap")
        .and_then(|s| s.parse().ok())
        .unwrap_or(if tier == "thorough" { 3000.0 } else { 420.0 });
    let seed = base_seed();
    let start = std::time::Instant::now();
    println!(
        "lsmsim check {} tier={tier} VERIF_SEED={seed} runs={runs} jobs={jobs}",
        prop.id
    );

    let known = load_known_findings();
    let results = pool::run_pool(&prop, &tier, seed, runs, jobs, wall_cap);

    // aggregate
    let mut counters: BTreeMap<String, u64> = BTreeMap::new();
    let mut states: BTreeSet<u64> = BTreeSet::new();
    let mut interleavings: BTreeSet<u64> = BTreeSet::new();
    let mut nontrivial_digests: BTreeSet<u64> = BTreeSet::new();
    let mut samples: Vec<serde_json::Value> = Vec::new();
    let mut violations: Vec<&runner::RunResult> = Vec::new();
    let mut observations: BTreeMap<String, u64> = BTreeMap::new();
    let mut harness_errors = 0u64;
    let mut evaluations = 0u64;
    let mut sim_ns = 0u128;
    let mut total_ops = 0u64;
    let mut slowest: Vec<(u64, u64, u64)> = results.iter().map(|r| (r.wall_ms, r.index, r.seed)).collect();
    slowest.sort_unstable_by(|a, b| b.cmp(a));
    slowest.truncate(5);
    for r in &results {
        evaluations += r.evaluations.max(1);
        total_ops += r.n_ops;
        sim_ns += u128::from(r.sim_ns);
        for (k, v) in &r.counters {
            if let Some(o) = k.strip_prefix("obs:") {
                *observations.entry(o.to_string()).or_insert(0) += v;
            } else {
                *counters.entry(k.clone()).or_insert(0) += v;
            }
        }
        states.extend(r.states.iter().copied());
        interleavings.extend(r.interleavings.iter().copied());
        nontrivial_digests.extend(r.nontrivial_digests.iter().copied());
        if samples.len() < 3 {
            if let Some(s) = &r.sample {
                samples.push(s.clone());
            }
        }
        match r.outcome.as_str() {
            "ok" => {}
            "violation" => violations.push(r),
            "observation" => {
                *observations
                    .entry(format!("{} ({})", r.class, r.tag))
                    .or_insert(0) += 1;
            }
            "harness_error" => harness_errors += 1,
            _ => {}
        }
    }

    // violations: known findings vs new
    let mut new_violation_lines: Vec<String> = Vec::new();
    let mut known_hits: BTreeMap<String, (u64, String)> = BTreeMap::new();
    let mut fixed_returned = 0;
    let mut minimise_budget = 3;
    for v in &violations {
        // a signature ending in '*' matches as a prefix (same call site, message tail varies)
        let sig_matches = |sig: &str, class: &str| -> bool {
            match sig.strip_suffix('*') {
                Some(p) => class.starts_with(p),
                None => sig == class,
            }
        };
        let k = known
            .iter()
            .find(|k| k.property == prop.id && sig_matches(&k.signature, &v.class) && k.status == "open");
        if let Some(k) = k {
            let e = known_hits
                .entry(k.signature.clone())
                .or_insert((0, k.description.clone()));
            e.0 += 1;
            continue;
        }
        if known
            .iter()
            .any(|k| k.property == prop.id && sig_matches(&k.signature, &v.class) && k.status == "fixed")
        {
            fixed_returned += 1;
        }
        let path = if minimise_budget > 0 {
            minimise_budget -= 1;
            runner::minimise_and_write(&prop, v, &verif_dir())
        } else {
            runner::write_replay(&prop, v, &verif_dir(), false)
        };
        new_violation_lines.push(format!(
            "VIOLATION property={} replay={} class={} seed={} msg={}",
            prop.id,
            path.display(),
            v.class,
            v.seed,
            v.msg.replace('\n', " ")
        ));
    }
    for (sig, (n, desc)) in &known_hits {
        println!(
            "KNOWN-FINDING: property={} {} [{} run(s), signature {}]",
            prop.id, desc, n, sig
        );
    }
    for l in &new_violation_lines {
        println!("{l}");
    }
    if fixed_returned > 0 {
        println!("NOTE: {fixed_returned} violation(s) match a finding recorded as fixed: it has returned");
    }

    let wall = start.elapsed().as_secs_f64();
    let reach = counters
        .iter()
        .filter(|(k, _)| k.starts_with("probe_") || k.starts_with("fault_") || k.starts_with("crash_"))
        .map(|(k, v)| (k.clone(), *v))
        .collect::<BTreeMap<_, _>>();
    let reach_gaps: Vec<&str> = runner::expected_probes(&prop)
        .into_iter()
        .filter(|p| counters.get(*p).copied().unwrap_or(0) == 0)
        .collect();
    let ev = serde_json::json!({
        "property_id": prop.id,
        "tier": tier,
        "seed": seed,
        "level": prop.level,
        "wall_s": wall,
        "violations": new_violation_lines.len(),
        "coverage": {
            "evaluations": evaluations,
            "distinct_nontrivial": nontrivial_digests.len(),
            "rule": prop.rule,
            "samples": samples,
            "exhaustive": false,
            "simulated_runs": results.len(),
            "runs_per_hour": if wall > 0.0 { (results.len() as f64 / wall * 3600.0) as u64 } else { 0 },
            "seeds": {
                "base": seed,
                "first_run_seed": results.first().map(|r| r.seed),
                "last_run_seed": results.last().map(|r| r.seed),
                "derivation": "run_seed = mix(VERIF_SEED, fnv(property id), run index)"
            },
            "simulated_seconds": (sim_ns / 1_000_000_000) as u64,
            "operations_executed": total_ops,
            "operations_by_kind": counters.iter().filter(|(k, _)| k.starts_with("op_")).map(|(k, v)| (k.clone(), *v)).collect::<BTreeMap<_, _>>(),
            "faults_fired_by_kind": counters.iter().filter(|(k, _)| k.starts_with("fault_fired_") || k.starts_with("crash_mode_")).map(|(k, v)| (k.clone(), *v)).collect::<BTreeMap<_, _>>(),
            "distinct_states": states.len(),
            "distinct_states_measure": "distinct hashes of the structural shape (runs x tables per level, blob file count) seen after version changes",
            "distinct_interleavings": interleavings.len(),
            "distinct_interleavings_measure": "distinct hashes of the scheduler decision sequence projected to (thread, site class); 0 for sequential engines",
            "reach_probes": reach,
            "reach_gaps": reach_gaps,
            "all_counters": counters,
            "cross_property_observations": observations,
            "known_findings_hit": known_hits.iter().map(|(k, (n, _))| (k.clone(), *n)).collect::<BTreeMap<_, _>>(),
            "harness_errors": harness_errors,
            "slowest_runs_ms_index_seed": slowest,
            "components": {
                "real": ["lsm-tree (all of it, feature verif)", "sfa", "tempfile", "quick_cache", "crossbeam-skiplist", "std::fs", "std::sync", "kernel tmpfs as byte store"],
                "simulated": ["durability / crash outcomes / I/O errors / stored-byte corruption (simfs at the libc boundary)", "thread scheduling (baton scheduler, concurrent engine only)", "wall clock", "the caller: seqno allocation, snapshot tracker, flush/compaction workers, reopen"]
            }
        },
        "assumptions": [
            "sampling, not proof: a clean batch is evidence only for the runs explored",
            "usage protocol of DESIGN.md section 5 (seqnos from the Config counters, watermark strictly below live snapshots, preconditions of MoveDown/PullDown/FIFO)",
            "sequential consistency (one thread at a time); no weak-memory effects",
            "kernel tmpfs trusted as a byte store; persistence model = permissive POSIX with atomic rename"
        ]
    });
    let evdir = verif_dir().join("evidence");
    let _ = std::fs::create_dir_all(&evdir);
    let evpath = evdir.join(format!("{}.json", prop.id));
    if let Err(e) = std::fs::write(&evpath, serde_json::to_string_pretty(&ev).unwrap()) {
        eprintln!("HARNESS-ERROR: cannot write evidence {}: {e}", evpath.display());
        return 2;
    }
    println!(
        "{}: {} runs, {} evaluations, {} distinct non-trivial, {} states, {} interleavings, {:.1}s, {} new violation(s), {} known-finding signature(s), {} harness error(s)",
        prop.id,
        results.len(),
        evaluations,
        nontrivial_digests.len(),
        states.len(),
        interleavings.len(),
        wall,
        new_violation_lines.len(),
        known_hits.len(),
        harness_errors
    );
    if !observations.is_empty() {
        println!("cross-property observations (not decisive here): {observations:?}");
    }
    if harness_errors > 0 && new_violation_lines.is_empty() {
        eprintln!("HARNESS-ERROR: {harness_errors} run(s) ended with a harness error");
        return 2;
    }
    if new_violation_lines.is_empty() {
        0
    } else {
        1
    }
}

fn cmd_replay(args: &[String]) -> i32 {
    let Some(path) = args.first() else {
        eprintln!("usage: lsmsim replay <file>");
        return 2;
    };
    let text = match std::fs::read_to_string(path) {
        Ok(t) => t,
        Err(e) => {
            eprintln!("HARNESS-ERROR: cannot read {path}: {e}");
            return 2;
        }
    };
    let rf: spec::ReplayFile = match serde_json::from_str(&text) {
        Ok(r) => r,
        Err(e) => {
            eprintln!("HARNESS-ERROR: cannot parse {path}: {e}");
            return 2;
        }
    };
    let Some(prop) = props::find(&rf.spec.property) else {
        eprintln!("HARNESS-ERROR: unknown property {}", rf.spec.property);
        return 2;
    };
    let res = pool::run_spec_in_child(&prop, &rf.spec, 300.0);
    for l in &res.log {
        println!("  {l}");
    }
    println!(
        "replay {}: outcome={} class={} msg={}",
        path, res.outcome, res.class, res.msg
    );
    if res.outcome == "violation" && res.class == rf.violation_class {
        println!(
            "VIOLATION property={} replay={} class={} (reproduced{})",
            prop.id,
            path,
            res.class,
            if rf.event_digest != 0 && res.digest == rf.event_digest {
                ", identical event digest"
            } else if rf.event_digest != 0 {
                ", event digest differs"
            } else {
                ""
            }
        );
        1
    } else if res.outcome == "violation" {
        println!(
            "VIOLATION property={} replay={} class={} (different class than recorded: {})",
            prop.id, path, res.class, rf.violation_class
        );
        1
    } else {
        println!("not reproduced");
        0
    }
}

fn cmd_run_one(args: &[String]) -> i32 {
    let (Some(id), Some(idx)) = (args.first(), args.get(1)) else {
        eprintln!("usage: lsmsim run-one <Cnn> <index>");
        return 2;
    };
    let Some(prop) = props::find(id) else {
        return 2;
    };
    let tier = arg_value(args, "--tier").unwrap_or_else(|| "quick".into());
    let idx: u64 = idx.parse().unwrap_or(0);
    let seed = pool::run_seed(base_seed(), prop.id, idx);
    let spec = runner::generate(&prop, &tier, seed, idx);
    println!("{}", serde_json::to_string_pretty(&spec).unwrap());
    let res = pool::run_spec_in_child(&prop, &spec, 600.0);
    println!("{}", serde_json::to_string_pretty(&res).unwrap());
    i32::from(res.outcome == "violation")
}

fn cmd_selftest(args: &[String]) -> i32 {
    if args.first().map(String::as_str) != Some("determinism") {
        eprintln!("usage: lsmsim selftest determinism <Cnn> [--runs N]");
        return 2;
    }
    let Some(prop) = args.get(1).and_then(|id| props::find(id)) else {
        return 2;
    };
    let runs: u64 = arg_value(args, "--runs")
        .and_then(|s| s.parse().ok())
        .unwrap_or(500);
    let tier = arg_value(args, "--tier").unwrap_or_else(|| "quick".into());
    let seed = base_seed();
    let a = pool::run_pool(&prop, &tier, seed, runs, 16, 3000.0);
    let b = pool::run_pool(&prop, &tier, seed, runs, 3, 3000.0);
    let mut diverged = 0;
    let mut map: BTreeMap<u64, (u64, String)> = BTreeMap::new();
    for r in &a {
        map.insert(r.index, (r.digest, r.outcome.clone()));
    }
    for r in &b {
        match map.get(&r.index) {
            Some((d, o)) if *d == r.digest && *o == r.outcome => {}
            other => {
                diverged += 1;
                if diverged <= 5 {
                    println!(
                        "DIVERGENCE run index {} seed {}: {:?} vs ({}, {})",
                        r.index, r.seed, other, r.digest, r.outcome
                    );
                }
            }
        }
    }
    println!(
        "determinism {}: {} seeds x 2 executions (16 and 3 workers), {} divergent",
        prop.id,
        a.len().min(b.len()),
        diverged
    );
    i32::from(diverged > 0)
}
