//! C16 — failed operations. The history is first executed fault-free with `simfs` counting the
//! mutating file-system calls of every durable operation (deterministic). Then, for chosen call
//! indices `i` (quick: sampled, thorough: every one), the history is executed again from scratch
//! with one fault armed at call `i`: ENOSPC/EIO, or a legal short write / EINTR.

use crate::engine::{Engine, EngineOpts, Violation};
use crate::model::View;
use crate::props::PropDef;
use crate::runner::{finish_result, RunResult};
use crate::simfs::{self, FaultKind, FaultPlan};
use crate::spec::*;
use lsm_tree::AbstractTree;
use std::path::Path;

#[derive(Clone, Debug, serde::Serialize, serde::Deserialize, Default)]
pub struct FaultSpec {
    #[serde(default)]
    pub engine: String,
    /// "sample" or "all"
    pub mode: String,
    pub samples: usize,
    /// explicit (call index, kind) list for replay
    #[serde(default)]
    pub explicit: Vec<(u64, String)>,
}

pub fn default_plan(tier: &str) -> FaultSpec {
    if tier == "thorough" {
        FaultSpec {
            engine: "fault".into(),
            mode: "all".into(),
            samples: 0,
            explicit: vec![],
        }
    } else {
        FaultSpec {
            engine: "fault".into(),
            mode: "sample".into(),
            samples: 10,
            explicit: vec![],
        }
    }
}

fn kind_from(name: &str) -> FaultKind {
    match name {
        "enospc" => FaultKind::Io { prefer_enospc: true },
        "eio" => FaultKind::Io { prefer_enospc: false },
        "short_write" => FaultKind::ShortWrite,
        _ => FaultKind::Eintr,
    }
}

fn is_target(op: &Op) -> bool {
    matches!(
        op,
        Op::Flush { .. }
            | Op::FlushActive { .. }
            | Op::Leveled { .. }
            | Op::Major { .. }
            | Op::MoveDown { .. }
            | Op::PullDown { .. }
            | Op::DropRange { .. }
            | Op::Clear
            | Op::Ingest { .. }
    )
}

struct Baseline {
    /// total counted calls over all target operations
    total_calls: u64,
    /// durable content after each op (index = op index)
    durable_after: Vec<View>,
    /// call classes in order (for evidence / messages)
    trace: Vec<(simfs::CallClass, String)>,
}

fn new_engine(prop: &PropDef, spec: &RunSpec, root: &Path, full: bool) -> Engine {
    let opts = EngineOpts {
        decisive: prop.decisive.iter().map(|s| (*s).to_string()).collect(),
        full_checks: full,
        final_reclaim_phase: false,
    };
    Engine::new(spec.clone(), root.to_path_buf(), opts, None)
}

fn run_baseline(prop: &PropDef, spec: &RunSpec, root: &Path) -> Result<Baseline, Violation> {
    std::fs::create_dir_all(root).expect("mkdir");
    simfs::set_root(root.to_str().unwrap());
    let mut e = new_engine(prop, spec, root, false);
    e.open()?;
    simfs::start_counting(false);
    simfs::pause_fault(true);
    let mut durable_after = Vec::new();
    for op in &spec.ops {
        let target = is_target(op);
        simfs::pause_fault(!target);
        e.step(op)?;
        simfs::pause_fault(true);
        durable_after.push(e.model.durable_view());
    }
    let trace = simfs::take_call_trace();
    let rep = simfs::disarm_fault();
    simfs::clear_root();
    drop(e);
    Ok(Baseline {
        total_calls: rep.calls_seen,
        durable_after,
        trace,
    })
}

/// After a failed operation: bring the model's memtable bookkeeping in line with what the tree
/// did before it failed (rotation / a completed inner flush are not undone by the failure and
/// do not change any logical view).
fn resync_memtable_locs(e: &mut Engine) {
    let sealed = e.tree().sealed_memtable_count();
    let active_empty = e.tree().active_memtable().is_empty();
    if active_empty && sealed == 0 {
        e.model.rotate();
        e.model.flush_sealed();
    } else if active_empty && sealed > 0 {
        e.model.rotate();
    }
}

#[allow(clippy::too_many_lines)]
fn run_with_fault(
    prop: &PropDef,
    spec: &RunSpec,
    root: &Path,
    base: &Baseline,
    at_call: u64,
    kind_name: &str,
    rng: &mut crate::rng::Rng,
    stats: &mut crate::engine::Stats,
) -> Result<(), Violation> {
    let _ = std::fs::remove_dir_all(root);
    std::fs::create_dir_all(root).expect("mkdir");
    simfs::set_root(root.to_str().unwrap());
    let mut e = new_engine(prop, spec, root, true);
    // only the model-based read oracles matter here; the structural audits belong elsewhere
    for t in ["structure", "gc_stats", "seqno", "files"] {
        e.disabled.insert(t.to_string());
    }
    e.open()?;
    let kind = kind_from(kind_name);
    let legal_noop = matches!(kind, FaultKind::ShortWrite | FaultKind::Eintr);
    simfs::arm_fault(FaultPlan {
        at_call,
        kind,
        count_reads: false,
    });
    simfs::pause_fault(true);
    let ops = spec.ops.clone();
    let mut fired_at: Option<usize> = None;
    // set when the caller carried on after a failed call: (op index, version id right after it)
    let mut continued_after: Option<(usize, u64, Option<View>)> = None;
    let mut i = 0;
    while i < ops.len() {
        let op = &ops[i];
        if continued_after.is_some() && matches!(op, Op::Reopen) {
            // after a failed call that the caller did not retry, the disk may legitimately be
            // one step ahead of memory; intermediate reopens are covered by the final one below
            i += 1;
            continue;
        }
        let target = is_target(op) && fired_at.is_none();
        let before_durable = e.model.durable_view();
        let snaps_before = e.snaps.len();
        simfs::pause_fault(!target);
        let r = e.step(op);
        simfs::pause_fault(true);
        let fired_now = target && simfs::fault_fired().is_some();
        if !fired_now {
            // no fault in this op: it must behave as in any fault-free run
            r?;
            i += 1;
            continue;
        }
        fired_at = Some(i);
        let (class, path) = simfs::fault_fired().unwrap();
        let site = format!(
            "{} of {} during {}",
            class.name(),
            norm(&path),
            op.name()
        );
        stats.inc(&format!("fault_fired_{kind_name}"));
        stats.inc(&format!("fault_fired_at_{}", class.name()));
        stats.inc(&format!("fault_fired_in_{}", op.name()));
        simfs::disarm_fault();
        match r {
            Ok(()) => {
                // the operation absorbed the fault (legal short write / EINTR, or an advisory
                // call such as an unlink in Drop): it behaved like a fault-free run, whose
                // oracles have all just been evaluated by step()
                stats.inc("fault_absorbed");
                if !legal_noop {
                    stats.inc("fault_absorbed_error");
                }
                i += 1;
                continue;
            }
            Err(v) if v.tag != "error" => return Err(v),
            Err(v) => {
                if legal_noop {
                    return Err(Violation {
                        tag: "fault".into(),
                        class: format!("fault/legal-{kind_name}-failed-the-operation/{}", class.name()),
                        msg: format!(
                            "a legal {kind_name} at {site} made the operation fail: {}",
                            v.msg
                        ),
                        at_op: i,
                    });
                }
                stats.inc("fault_reported_by_operation");
            }
        }
        // The operation returned an I/O error.
        // (a snapshot opened inside a failed ingestion step stays valid)
        let _ = snaps_before;
        resync_memtable_locs(&mut e);
        // 1. every read keeps returning what it returned before the call
        if let Err(v) = e.check_reads() {
            return Err(Violation {
                tag: "fault".into(),
                class: format!("fault/reads-changed-after-failed-{}/{}", op.name(), v.class),
                msg: format!("after {} failed at {site}: {}", op.name(), v.msg),
                at_op: i,
            });
        }
        // 2. no table stays hidden
        let hidden = lsm_tree::verif::hidden_table_ids(e.tree());
        if !hidden.is_empty() {
            return Err(Violation {
                tag: "fault".into(),
                class: format!("fault/tables-left-hidden-after-failed-{}", op.name()),
                msg: format!(
                    "after {} failed at {site} tables {hidden:?} are still hidden from compaction",
                    op.name()
                ),
                at_op: i,
            });
        }
        // 3. either reopen now (before or after state), or retry
        let c20 = prop.id == "C20";
        let reopen_now = c20 || rng.chance(1, 3);
        if reopen_now {
            stats.inc("fault_then_reopen");
            let after_durable = base.durable_after[i].clone();
            let mut mid: Option<View> = None;
            if matches!(op, Op::Ingest { .. }) {
                // memtables flushed, ingestion not registered
                let mut m = e.model.clone();
                m.rotate();
                m.flush_sealed();
                mid = Some(m.durable_view());
            }
            if rng.chance(1, 2) {
                // power loss right after the failed call instead of a clean shutdown: the crash
                // image is synthesised from the journal of this very execution (everything the
                // failed call and its error path issued included), the real recovery runs on it
                let j = simfs::journal();
                let k = j.events.len();
                let mode = match rng.below(4) {
                    0 => simfs::CrashMode::Strict,
                    1 => simfs::CrashMode::Lucky,
                    2 => simfs::CrashMode::OrderedPrefix(rng.usize(k + 1)),
                    _ => simfs::CrashMode::Random(rng.next_u64()),
                };
                stats.inc("fault_then_crash");
                let (img, info) = simfs::crash_image(&j, k, mode);
                if info.pending_dirent_ops + info.pending_data_writes > 0 {
                    stats.inc("fault_then_crash_with_pending_effects");
                }
                let mut allowed = vec![before_durable.clone(), after_durable.clone()];
                if let Some(m) = &mid {
                    allowed.push(m.clone());
                }
                let dir = root.parent().unwrap_or(root).join("img");
                let (code, msg) = crate::crash::check_image(&img, &dir, &spec.cfg, &allowed, None);
                if code != 0 {
                    let (cls, text) = msg.split_once('|').unwrap_or(("recovery", msg.as_str()));
                    if cls == "files" && !c20 {
                        stats.inc("obs:files/after-failed-op-and-crash (files)");
                        return Ok(());
                    }
                    let cls0 = cls.split('/').next().unwrap_or(cls);
                    let files_kind = c20 && (cls0 == "files" || cls0 == "unopenable");
                    return Err(Violation {
                        tag: if files_kind { "files".into() } else { "fault".into() },
                        class: if files_kind {
                            format!("files/crash-after-failed-{}/{cls0}", op.name())
                        } else {
                            format!("fault/crash-after-failed-{}/{cls0}", op.name())
                        },
                        msg: format!(
                            "after {} failed at {site}, a crash under outcome {mode:?} (pending dirent ops {}, pending data writes {}): {text}",
                            op.name(),
                            info.pending_dirent_ops,
                            info.pending_data_writes
                        ),
                        at_op: i,
                    });
                }
                if c20 {
                    stats.inc("files_checked_after_failed_op_and_crash");
                }
                return Ok(());
            }
            // clean reopen
            e.tree = None;
            e.snaps.clear();
            e.seqno = lsm_tree::SequenceNumberCounter::default();
            e.visible = lsm_tree::SequenceNumberCounter::default();
            if let Err(v) = e.open() {
                return Err(Violation {
                    tag: if c20 { "files".into() } else { "fault".into() },
                    class: if c20 {
                        format!("files/live-file-gone-after-failed-{}", op.name())
                    } else {
                        format!("fault/reopen-failed-after-failed-{}", op.name())
                    },
                    msg: format!("after {} failed at {site}, reopening fails: {}", op.name(), v.msg),
                    at_op: i,
                });
            }
            let got = e.dump(u64::MAX)?;
            let ok = got == before_durable
                || got == after_durable
                || mid.as_ref().is_some_and(|m| *m == got);
            if !ok {
                return Err(Violation {
                    tag: "fault".into(),
                    class: format!("fault/reopen-state-after-failed-{}", op.name()),
                    msg: format!(
                        "after {} failed at {site}, a reopen yields {} which is neither the state before ({}) nor after ({}) the call",
                        op.name(),
                        crate::engine::fmt_view(&got),
                        crate::engine::fmt_view(&before_durable),
                        crate::engine::fmt_view(&after_durable)
                    ),
                    at_op: i,
                });
            }
            if c20 {
                // whatever the failed operation left behind must be gone after the reopen
                e.check_files_after_reopen()?;
                stats.inc("files_checked_after_failed_op_and_reopen");
            }
            // the rest of the history cannot be compared with the model any more (the model
            // does not know which of the two states was chosen): the evaluation ends here
            return Ok(());
        }
        if !c20 && rng.chance(1, 3) {
            // neither retried nor reopened: the caller gives up on this call and carries on with
            // other work; the model is unchanged (the call failed), every later step is checked
            // against it, and the run ends with a reopen that must yield the flushed state
            stats.inc("fault_then_continue");
            let mid = if matches!(op, Op::Ingest { .. }) {
                // memtables flushed by finish(), ingested tables not registered
                let mut m = e.model.clone();
                m.rotate();
                m.flush_sealed();
                Some(m.durable_view())
            } else {
                None
            };
            continued_after = Some((i, lsm_tree::verif::dump_current(e.tree()).id, mid));
            i += 1;
            continue;
        }
        // retry the same call now that the fault has cleared
        stats.inc("fault_then_retry");
        let retry_op = match op {
            Op::Ingest { items, .. } => Op::Ingest {
                items: items.clone(),
                mid: vec![],
                snap_mid: false,
            },
            other => other.clone(),
        };
        if let Err(v) = e.step(&retry_op) {
            return Err(Violation {
                tag: "fault".into(),
                class: format!(
                    "fault/retry-failed-after-failed-{}/{}",
                    op.name(),
                    if v.tag == "error" { "error".to_string() } else { v.class.clone() }
                ),
                msg: format!(
                    "after {} failed at {site}, repeating the call does not succeed cleanly: {}",
                    op.name(),
                    v.msg
                ),
                at_op: i,
            });
        }
        i += 1;
    }
    simfs::disarm_fault();
    // finally a clean reopen must give the flushed state
    match continued_after {
        None => {
            // (the engine's own reopen oracle)
            e.step(&Op::Reopen)?;
        }
        Some((failed_idx, vid_then, mid)) => {
            // The failed call may have reached the disk (e.g. the error came from an fsync after
            // `current` had been switched): as long as no later version change has rewritten the
            // manifest from memory, a reopen may yield the state *after* the failed call.
            let no_install_since = lsm_tree::verif::dump_current(e.tree()).id == vid_then;
            let mut want_mem = e.model.durable_view();
            want_mem.retain(|k, _| !crate::engine::is_wild(k));
            let after_failed = base.durable_after[failed_idx].clone();
            e.tree = None;
            e.snaps.clear();
            e.seqno = lsm_tree::SequenceNumberCounter::default();
            e.visible = lsm_tree::SequenceNumberCounter::default();
            if let Err(v) = e.open() {
                return Err(Violation {
                    tag: "fault".into(),
                    class: format!("fault/final-reopen-failed-after-failed-{}", ops[failed_idx].name()),
                    msg: format!(
                        "{} (op #{failed_idx}) failed, the caller carried on; the final reopen fails: {}",
                        ops[failed_idx].name(),
                        v.msg
                    ),
                    at_op: failed_idx,
                });
            }
            let got = e.dump(u64::MAX)?;
            let ok = got == want_mem
                || (no_install_since
                    && (got == after_failed || mid.as_ref().is_some_and(|m| *m == got)));
            if !ok {
                return Err(Violation {
                    tag: "fault".into(),
                    class: format!("fault/final-reopen-state-after-failed-{}", ops[failed_idx].name()),
                    msg: format!(
                        "{} (op #{failed_idx}) failed, the caller carried on; the final reopen yields {} but the flushed state is {}",
                        ops[failed_idx].name(),
                        crate::engine::fmt_view(&got),
                        crate::engine::fmt_view(&want_mem)
                    ),
                    at_op: failed_idx,
                });
            }
        }
    }
    if fired_at.is_none() {
        stats.inc("fault_not_reached");
    }
    simfs::clear_root();
    drop(e);
    Ok(())
}

fn norm(p: &str) -> String {
    if p.contains(".tmp") {
        ".tmp#".into()
    } else if let Some((d, f)) = p.rsplit_once('/') {
        if f.chars().all(|c| c.is_ascii_digit()) {
            format!("{d}/<id>")
        } else {
            p.to_string()
        }
    } else if p.starts_with('v') && p.len() > 1 && p[1..].chars().all(|c| c.is_ascii_digit()) {
        "v<N>".into()
    } else {
        p.to_string()
    }
}

pub fn run_fault(prop: &PropDef, spec: &RunSpec, workdir: &Path, index: u64) -> RunResult {
    let plan: FaultSpec = serde_json::from_value(spec.extra.clone()).unwrap_or_default();
    let mut stats = crate::engine::Stats::default();
    let mut evaluations = 0u64;
    let mut nontrivial: Vec<u64> = Vec::new();
    let root = workdir.join("t");
    let outcome = (|| -> Result<(), Violation> {
        let base = match std::panic::catch_unwind(|| run_baseline(prop, spec, &root)) {
            Ok(b) => b?,
            Err(_) => {
                let msg = crate::runner::take_panic_msg();
                return Err(Violation {
                    tag: "panic".into(),
                    class: crate::runner::panic_class(&msg),
                    msg: format!("panic in the fault-free baseline: {msg}"),
                    at_op: 0,
                });
            }
        };
        stats.add("baseline_counted_calls", base.total_calls);
        if base.total_calls == 0 {
            return Ok(());
        }
        let mut rng = crate::rng::Rng::new(crate::rng::mix(&[spec.seed, 0xFA17]));
        let mut jobs: Vec<(u64, String)> = Vec::new();
        if !plan.explicit.is_empty() {
            jobs = plan.explicit.clone();
        } else if plan.mode == "all" {
            for i in 0..base.total_calls {
                jobs.push((i, if rng.chance(1, 2) { "enospc" } else { "eio" }.into()));
                if rng.chance(1, 6) {
                    jobs.push((i, if rng.chance(1, 2) { "short_write" } else { "eintr" }.into()));
                }
            }
        } else {
            for _ in 0..plan.samples {
                let i = rng.below(base.total_calls);
                let k = match rng.below(8) {
                    0..=2 => "enospc",
                    3..=5 => "eio",
                    6 => "short_write",
                    _ => "eintr",
                };
                jobs.push((i, k.into()));
            }
        }
        for (at, kind) in jobs {
            evaluations += 1;
            let _ = std::fs::write(workdir.join("progress"), format!("fault {at} {kind}"));
            let mut rr = crate::rng::Rng::new(crate::rng::mix(&[spec.seed, at, 0xBEEF]));
            let r = std::panic::catch_unwind(std::panic::AssertUnwindSafe(|| {
                run_with_fault(prop, spec, &root, &base, at, &kind, &mut rr, &mut stats)
            }));
            simfs::disarm_fault();
            simfs::clear_root();
            let site = base
                .trace
                .get(at as usize)
                .map(|(c, p)| format!("{} {}", c.name(), norm(p)))
                .unwrap_or_default();
            let r = match r {
                Ok(r) => r,
                Err(_) => {
                    let msg = crate::runner::take_panic_msg();
                    Err(Violation {
                        tag: "fault".into(),
                        class: format!("fault/{}", crate::runner::panic_class(&msg)),
                        msg: format!("panic with a {kind} fault armed at call #{at} ({site}): {msg}"),
                        at_op: 0,
                    })
                }
            };
            if let Err(mut v) = r {
                v.msg = format!("[fault {kind} at counted call #{at}: {site}] {}", v.msg);
                stats.log.push(format!("FAIL at={at} kind={kind}"));
                return Err(v);
            }
            nontrivial.push(crate::rng::hash_bytes(format!("{site}|{kind}").as_bytes()));
        }
        Ok(())
    })();
    let mut res = finish_result(prop, spec, index, &stats, outcome.clone(), evaluations.max(1));
    if let (Err(_), Some(s)) = (&outcome, res.spec.as_mut()) {
        if let Some(l) = stats.log.iter().rev().find(|l| l.starts_with("FAIL ")) {
            let parts: Vec<&str> = l.split_whitespace().collect();
            let at: u64 = parts[1][3..].parse().unwrap_or(0);
            let kind = parts[2][5..].to_string();
            let mut p = plan.clone();
            p.explicit = vec![(at, kind)];
            s.extra = serde_json::to_value(&p).unwrap();
        }
    }
    nontrivial.sort_unstable();
    nontrivial.dedup();
    // distinct (call site, fault kind) pairs at which a fault was actually injected, made
    // run-specific so that they add up across runs
    res.nontrivial_digests = nontrivial
        .into_iter()
        .map(|h| crate::rng::mix(&[h, spec.seed]))
        .collect();
    res
}
