//! C06 — concurrency. Real threads (one writer, readers, a flusher, compactors, optionally a
//! major-compaction / drop_range thread) run the real code under the baton scheduler, which
//! decides every hand-off at lock probes, sequence-counter and memtable primitives, optionally
//! every file-system call, and at actor-level points. All events carry one global event number;
//! the history is checked afterwards against the model with the precise in-flight window.

use crate::audit;
use crate::engine::{build_config, FilterLog, Violation};
use crate::props::PropDef;
use crate::runner::{finish_result, RunResult};
use crate::sched::{self, Controller, Policy};
use crate::spec::*;
use lsm_tree::{AbstractTree, AnyTree, Guard, SequenceNumberCounter};
use std::collections::{BTreeMap, BTreeSet};
use std::path::Path;
use std::sync::atomic::{AtomicU64, Ordering};
use std::sync::{Arc, Mutex};

#[derive(Clone, Debug, serde::Serialize, serde::Deserialize)]
pub enum Act {
    /// writer: one batch (one seqno)
    Write(Vec<WriteItem>),
    /// reader: open a snapshot, read these keys (and optionally scan), release it
    Read { keys: Vec<Bytes>, scan: bool, #[serde(default)] reread: bool },
    /// ingester: bulk-ingest a sorted batch (standard trees only)
    Ingest(Vec<WriteItem>),
    Rotate,
    Flush { use_wm: bool },
    Leveled { l0: u8, target: u64, use_wm: bool },
    Major { target: u64, use_wm: bool },
    DropRange { lo: Bytes, hi: Bytes },
    /// clearer (C15 under schedules): `clear()` while others write, rotate, flush and read
    Clear,
    /// actor-level pause (pure scheduling point)
    Pause,
    /// auditor: structural audit of whatever version is published right now
    Audit,
    /// C18 under schedules: get_highest_seqno must cover every write that had returned before
    /// the call and nothing that was not yet allocated when it returned
    CheckSeqno,
}

#[derive(Clone, Debug, serde::Serialize, serde::Deserialize, Default)]
pub struct ConcSpec {
    pub engine: String,
    /// per thread: (role, actions)
    pub threads: Vec<(String, Vec<Act>)>,
    /// "random" or "pct"
    pub policy: String,
    pub pct_changes: Vec<u64>,
    pub yield_on_fs: bool,
    pub sched_seed: u64,
    /// recorded scheduler decisions (replay); empty = draw from sched_seed
    #[serde(default)]
    pub decisions: Vec<u8>,
    pub max_steps: u64,
}

#[derive(Clone, Debug)]
enum Ev {
    WriteBegin { s: u64, items: Vec<WriteItem>, ev: u64 },
    WriteEnd { s: u64, ev: u64 },
    SnapOpen { tid: u32, s: u64, ev: u64 },
    Read { tid: u32, s: u64, e_s: u64, key: Vec<u8>, got: Option<Vec<u8>>, ev: u64 },
    Scan { tid: u32, s: u64, e_s: u64, got: Vec<(Vec<u8>, Vec<u8>)>, ev: u64 },
    IngestDone { g: u64, items: Vec<WriteItem>, begin_ev: u64, ev: u64 },
    MaintBegin { tid: u32, what: &'static str, ev: u64 },
    MaintEnd { tid: u32, ev: u64 },
    Error { tid: u32, what: String, ev: u64 },
    AuditFail { tid: u32, version: u64, what: String, ev: u64 },
    AuditOk { shape: u64 },
    SeqnoCheck { tid: u32, ev_start: u64, got: Option<u64>, hi: u64, ev: u64 },
    DropBegin { tid: u32, lo: Vec<u8>, hi: Vec<u8>, ev: u64 },
    DropEnd { tid: u32, ev: u64 },
    ClearBegin { tid: u32, ev: u64 },
    ClearEnd { tid: u32, ev: u64 },
}

struct SharedState {
    /// highest seqno of a write that has returned (u64::MAX = none yet)
    last_done: AtomicU64,
    log: Mutex<Vec<Ev>>,
    ev: AtomicU64,
    live: Mutex<BTreeMap<u64, u32>>, // snapshot seqno -> refcount
}

impl SharedState {
    fn next_ev(&self) -> u64 {
        self.ev.fetch_add(1, Ordering::SeqCst)
    }
    fn push(&self, e: Ev) {
        self.log.lock().unwrap().push(e);
    }
}

pub fn gen_conc(prop: &PropDef, seed: u64, tier: &str) -> RunSpec {
    let mut r = crate::rng::Rng::new(seed);
    let mut p = (prop.profile)();
    p.blob = crate::gen::Tri::Maybe;
    if prop.id == "C14" {
        // C14 under schedules: every run has an ingester thread (standard trees only, own key
        // class) next to a writer that also rotates, a flusher, compactors and readers
        p.blob = crate::gen::Tri::Never;
    }
    let mut cfg = crate::gen::gen_cfg(&mut r, &p);
    cfg.filter_fn = None;
    let nkeys = 3 + r.usize(8);
    let keys = crate::gen::gen_keys(&mut r, nkeys);
    let mut st = crate::gen::GenState {
        next_value_id: 0,
        disc: Default::default(),
        fifo_counter: 0,
        fifo_descending: false,
        huge_values: false,
        empty_values: false,
    };
    let scale = if tier == "thorough" { 2 } else { 1 };
    let mut threads: Vec<(String, Vec<Act>)> = Vec::new();
    // writer
    let n_writes = (10 + r.usize(40)) * scale;
    let mut w = Vec::new();
    for _ in 0..n_writes {
        let n = if r.chance(1, 5) { 2 + r.usize(3) } else { 1 };
        let mut used = BTreeSet::new();
        let mut items = Vec::new();
        for _ in 0..n {
            let k = r.pick(&keys).clone();
            if !used.insert(k.clone()) {
                continue;
            }
            if r.chance(1, 5) {
                items.push(WriteItem { k, kind: WKind::Del, v: Bytes(vec![]) });
            } else {
                let v = crate::gen::gen_value(&mut st, &mut r, &cfg);
                items.push(WriteItem { k, kind: WKind::Put, v });
            }
        }
        w.push(Act::Write(items));
        if r.chance(1, 6) {
            w.push(Act::Pause);
        }
        if r.chance(1, 10) {
            // the write path seals a full memtable itself in real engines
            w.push(Act::Rotate);
        }
    }
    threads.push(("writer".into(), w));
    // readers
    for _ in 0..1 + r.usize(2) {
        let mut a = Vec::new();
        for _ in 0..(5 + r.usize(20)) * scale {
            let n = 1 + r.usize(3);
            a.push(Act::Read {
                keys: (0..n).map(|_| r.pick(&keys).clone()).collect(),
                scan: r.chance(1, 4),
                reread: r.chance(1, 2),
            });
        }
        threads.push(("reader".into(), a));
    }
    // flusher
    {
        let mut a = Vec::new();
        for _ in 0..(3 + r.usize(8)) * scale {
            if r.chance(1, 4) {
                a.push(Act::Pause);
            }
            a.push(Act::Rotate);
            a.push(Act::Flush { use_wm: r.chance(1, 2) });
        }
        threads.push(("flusher".into(), a));
    }
    // C15 under schedules: clear() against writer, readers, flusher and compactions in progress
    // (LSMSIM_CLEAR_WITHOUT_COMPACTION=1 restricts the variant to the flush race)
    let c15 = prop.id == "C15";
    let with_compactors = !c15 || std::env::var("LSMSIM_CLEAR_WITHOUT_COMPACTION").is_err();
    if c15 {
        let mut a = Vec::new();
        for _ in 0..(1 + r.usize(3)) * scale {
            for _ in 0..2 + r.usize(12) {
                a.push(Act::Pause);
            }
            a.push(Act::Clear);
        }
        threads.push(("clearer".into(), a));
        // drop_range over ranges the readers do look at: keys outside R and snapshots read
        // before the call began stay exact, keys inside R are unconstrained for later snapshots
        if r.chance(2, 3) {
            let mut sorted = keys.clone();
            sorted.sort();
            let mut a = Vec::new();
            for _ in 0..(1 + r.usize(3)) * scale {
                for _ in 0..2 + r.usize(10) {
                    a.push(Act::Pause);
                }
                let i = r.usize(sorted.len());
                let j = (i + r.usize(1 + sorted.len() / 2)).min(sorted.len() - 1);
                a.push(Act::DropRange { lo: sorted[i].clone(), hi: sorted[j].clone() });
            }
            threads.push(("dropper".into(), a));
        }
    }
    // compactors
    for _ in 0..if with_compactors { 1 + r.usize(3) } else { 0 } {
        let mut a = Vec::new();
        for _ in 0..(4 + r.usize(10)) * scale {
            a.push(Act::Leveled {
                l0: 1 + r.below(4) as u8,
                target: *r.pick(&[1u64, 64, 256, 1024, 64 << 20]),
                use_wm: r.chance(1, 2),
            });
            if r.chance(1, 3) {
                a.push(Act::Pause);
            }
        }
        threads.push(("compactor".into(), a));
    }
    // optional exclusive maintenance thread
    if r.chance(1, 2) && with_compactors {
        let mut a = Vec::new();
        for _ in 0..1 + r.usize(3) {
            if r.chance(2, 3) {
                a.push(Act::Major {
                    target: *r.pick(&[1u64, 256, u64::MAX]),
                    use_wm: r.chance(1, 2),
                });
            } else {
                // a range no reader ever looks at and the writer never writes to
                a.push(Act::DropRange {
                    lo: Bytes(b"~drop-a".to_vec()),
                    hi: Bytes(b"~drop-z".to_vec()),
                });
            }
            a.push(Act::Pause);
        }
        threads.push(("exclusive".into(), a));
    }
    // optional ingester, only in the C02 variant (C06's thread set is the one its statement
    // names). Standard trees only (DESIGN 6), and on a key class of its own: a write that lands
    // in the fresh memtable between the flush inside finish() and the registration of the
    // ingested tables is ordered *before* the ingestion by its seqno but *above* it in read
    // order, which is outside every listed property (they quantify over sequential ingestion).
    let mut ikeys: Vec<Bytes> = Vec::new();
    if (prop.id == "C02" && cfg.blob.is_none() && r.chance(2, 3))
        || (prop.id == "C14" && cfg.blob.is_none())
    {
        ikeys = (0..4 + r.usize(4)).map(|i| Bytes(format!("i{i:02}").into_bytes())).collect();
        let mut a = Vec::new();
        for _ in 0..(1 + r.usize(3)) * scale {
            let n = 1 + r.usize(4);
            let mut used = BTreeSet::new();
            let mut items = Vec::new();
            for j in 0..n {
                let k = r.pick(&ikeys).clone();
                if !used.insert(k.clone()) {
                    continue;
                }
                if j > 0 && r.chance(1, 5) {
                    items.push(WriteItem { k, kind: WKind::Del, v: Bytes(vec![]) });
                } else {
                    let v = crate::gen::gen_value(&mut st, &mut r, &cfg);
                    items.push(WriteItem { k, kind: WKind::Put, v });
                }
            }
            items.sort_by(|a, b| a.k.cmp(&b.k));
            a.push(Act::Ingest(items));
            a.push(Act::Pause);
            a.push(Act::Pause);
        }
        threads.push(("ingester".into(), a));
        // readers look at the ingested keys too
        for (role, acts) in threads.iter_mut() {
            if role == "reader" {
                for act in acts.iter_mut() {
                    if let Act::Read { keys: ks, .. } = act {
                        if r.chance(1, 2) {
                            ks.push(r.pick(&ikeys).clone());
                        }
                    }
                }
            }
        }
    }
    // C18 variant: a thread that keeps asking for the highest seqno while flushes run
    if prop.id == "C18" {
        let mut a = Vec::new();
        for _ in 0..(10 + r.usize(20)) * scale {
            a.push(Act::CheckSeqno);
            if r.chance(1, 3) {
                a.push(Act::Pause);
            }
        }
        threads.push(("seqno-checker".into(), a));
    }
    // optional auditor
    if r.chance(1, 2) {
        let mut a = Vec::new();
        for _ in 0..(2 + r.usize(5)) * scale {
            a.push(Act::Audit);
            a.push(Act::Pause);
        }
        threads.push(("auditor".into(), a));
    }
    let pct = r.chance(1, 2);
    let est_steps = 600u64 * scale as u64;
    let cs = ConcSpec {
        engine: "conc".into(),
        threads,
        policy: if pct { "pct" } else { "random" }.into(),
        pct_changes: if pct {
            (0..1 + r.usize(4)).map(|_| 1 + r.below(est_steps)).collect()
        } else {
            vec![]
        },
        yield_on_fs: r.chance(1, 2),
        sched_seed: r.next_u64(),
        decisions: vec![],
        max_steps: 20_000,
    };
    RunSpec {
        property: prop.id.to_string(),
        seed,
        cfg,
        keys: {
            let mut k = keys;
            k.extend(ikeys);
            k
        },
        ops: vec![],
        extra: serde_json::to_value(&cs).unwrap(),
    }
}

fn watermark(shared: &SharedState, visible: &SequenceNumberCounter, use_wm: bool) -> u64 {
    if !use_wm {
        return 0;
    }
    sched::no_yield(|| {
        let live_min = shared.live.lock().unwrap().keys().next().copied();
        let v = visible.get();
        live_min.unwrap_or(u64::MAX).min(v).saturating_sub(1)
    })
}

#[allow(clippy::too_many_lines)]
fn thread_body(
    tid: u32,
    acts: Vec<Act>,
    tree: AnyTree,
    seqno: SequenceNumberCounter,
    visible: SequenceNumberCounter,
    shared: Arc<SharedState>,
) {
    for act in acts {
        sched::yield_point("actor:next");
        match act {
            Act::Pause => {}
            Act::CheckSeqno => {
                let ev_start = shared.next_ev();
                let got = tree.get_highest_seqno();
                // nothing can be stored that was not allocated yet
                let hi = sched::no_yield(|| seqno.get());
                shared.push(Ev::SeqnoCheck {
                    tid,
                    ev_start,
                    got,
                    hi,
                    ev: shared.next_ev(),
                });
            }
            Act::Audit => {
                let (a, probs) = audit::audit_tree_checked(&tree);
                if probs.is_empty() {
                    shared.push(Ev::AuditOk { shape: a.shape_hash() });
                } else {
                    shared.push(Ev::AuditFail {
                        tid,
                        version: a.version_id,
                        what: probs.join("; "),
                        ev: shared.next_ev(),
                    });
                }
            }
            Act::Write(items) => {
                let s = seqno.next();
                shared.push(Ev::WriteBegin {
                    s,
                    items: items.clone(),
                    ev: shared.next_ev(),
                });
                for w in &items {
                    match w.kind {
                        WKind::Put => {
                            let _ = tree.insert(w.k.0.as_slice(), w.v.0.as_slice(), s);
                        }
                        WKind::Del => {
                            let _ = tree.remove(w.k.0.as_slice(), s);
                        }
                        WKind::WeakDel => {
                            let _ = tree.remove_weak(w.k.0.as_slice(), s);
                        }
                    }
                }
                visible.fetch_max(s + 1);
                shared.last_done.store(s, Ordering::SeqCst);
                shared.push(Ev::WriteEnd {
                    s,
                    ev: shared.next_ev(),
                });
            }
            Act::Read { keys, scan, reread } => {
                // the documented protocol: a snapshot is read from visible_seqno and registered
                // with the caller's snapshot tracker in one step
                let (s, e_s) = sched::no_yield(|| {
                    let s = visible.get();
                    *shared.live.lock().unwrap().entry(s).or_insert(0) += 1;
                    let e = shared.next_ev();
                    shared.push(Ev::SnapOpen { tid, s, ev: e });
                    (s, e)
                });
                for pass in 0..if reread { 2 } else { 1 } {
                    if pass == 1 {
                        // let the others run for a while, then ask the same questions again
                        for _ in 0..3 {
                            sched::yield_point("actor:hold-snapshot");
                        }
                    }
                    for k in &keys {
                        match tree.get(k.0.as_slice(), s) {
                            Ok(v) => shared.push(Ev::Read {
                                tid,
                                s,
                                e_s,
                                key: k.0.clone(),
                                got: v.map(|x| x.to_vec()),
                                ev: shared.next_ev(),
                            }),
                            Err(e) => shared.push(Ev::Error {
                                tid,
                                what: format!("get returned Err({e:?})"),
                                ev: shared.next_ev(),
                            }),
                        }
                    }
                    if scan {
                        let mut got = Vec::new();
                        let mut failed = None;
                        for g in tree.iter(s, None) {
                            match g.into_inner() {
                                Ok((k, v)) => got.push((k.to_vec(), v.to_vec())),
                                Err(e) => {
                                    failed = Some(format!("scan returned Err({e:?})"));
                                    break;
                                }
                            }
                        }
                        match failed {
                            None => shared.push(Ev::Scan {
                                tid,
                                s,
                                e_s,
                                got,
                                ev: shared.next_ev(),
                            }),
                            Some(m) => shared.push(Ev::Error {
                                tid,
                                what: m,
                                ev: shared.next_ev(),
                            }),
                        }
                    }
                }
                sched::no_yield(|| {
                    let mut l = shared.live.lock().unwrap();
                    if let Some(c) = l.get_mut(&s) {
                        *c -= 1;
                        if *c == 0 {
                            l.remove(&s);
                        }
                    }
                });
            }
            Act::Ingest(items) => {
                let begin_ev = shared.next_ev();
                shared.push(Ev::MaintBegin { tid, what: "ingest", ev: begin_ev });
                let r = (|| -> lsm_tree::Result<()> {
                    let mut ing = tree.ingestion()?;
                    for w in &items {
                        match w.kind {
                            WKind::Put => ing.write(w.k.0.as_slice(), w.v.0.as_slice())?,
                            _ => ing.write_tombstone(w.k.0.as_slice())?,
                        }
                    }
                    ing.finish()
                })();
                match r {
                    Ok(()) => {
                        // the seqno of the ingested batch is what its tables carry: find the
                        // stored entry of the first ingested value (values are unique)
                        let g = sched::no_yield(|| {
                            let probe = items.iter().find(|w| w.kind == WKind::Put)?;
                            let d = lsm_tree::verif::dump_current(&tree);
                            for t in d.levels.iter().flatten().flatten() {
                                for e in t.iter().flatten() {
                                    if e.key.user_key.as_ref() == probe.k.0.as_slice()
                                        && e.value.as_ref() == probe.v.0.as_slice()
                                    {
                                        return Some(e.key.seqno);
                                    }
                                }
                            }
                            None
                        });
                        if let Some(g) = g {
                            shared.push(Ev::IngestDone {
                                g,
                                items: items.clone(),
                                begin_ev,
                                ev: shared.next_ev(),
                            });
                        }
                    }
                    Err(e) => shared.push(Ev::Error {
                        tid,
                        what: format!("ingestion returned Err({e:?})"),
                        ev: shared.next_ev(),
                    }),
                }
                shared.push(Ev::MaintEnd { tid, ev: shared.next_ev() });
            }
            Act::Rotate => {
                let _ = tree.rotate_memtable();
            }
            Act::Flush { use_wm } => {
                let t = watermark(&shared, &visible, use_wm);
                shared.push(Ev::MaintBegin { tid, what: "flush", ev: shared.next_ev() });
                let lock = tree.get_flush_lock();
                let r = tree.flush(&lock, t);
                drop(lock);
                if let Err(e) = r {
                    shared.push(Ev::Error { tid, what: format!("flush returned Err({e:?})"), ev: shared.next_ev() });
                }
                shared.push(Ev::MaintEnd { tid, ev: shared.next_ev() });
            }
            Act::Leveled { l0, target, use_wm } => {
                let t = watermark(&shared, &visible, use_wm);
                shared.push(Ev::MaintBegin { tid, what: "compact", ev: shared.next_ev() });
                let strat = lsm_tree::compaction::Leveled::default()
                    .with_l0_threshold(l0)
                    .with_table_target_size(target);
                if let Err(e) = tree.compact(Arc::new(strat), t) {
                    shared.push(Ev::Error { tid, what: format!("compact returned Err({e:?})"), ev: shared.next_ev() });
                }
                shared.push(Ev::MaintEnd { tid, ev: shared.next_ev() });
            }
            Act::Major { target, use_wm } => {
                let t = watermark(&shared, &visible, use_wm);
                shared.push(Ev::MaintBegin { tid, what: "major", ev: shared.next_ev() });
                if let Err(e) = tree.major_compact(target, t) {
                    shared.push(Ev::Error { tid, what: format!("major_compact returned Err({e:?})"), ev: shared.next_ev() });
                }
                shared.push(Ev::MaintEnd { tid, ev: shared.next_ev() });
            }
            Act::Clear => {
                shared.push(Ev::MaintBegin { tid, what: "clear", ev: shared.next_ev() });
                shared.push(Ev::ClearBegin { tid, ev: shared.next_ev() });
                if let Err(e) = tree.clear() {
                    shared.push(Ev::Error { tid, what: format!("clear returned Err({e:?})"), ev: shared.next_ev() });
                }
                shared.push(Ev::ClearEnd { tid, ev: shared.next_ev() });
                shared.push(Ev::MaintEnd { tid, ev: shared.next_ev() });
            }
            Act::DropRange { lo, hi } => {
                shared.push(Ev::MaintBegin { tid, what: "drop_range", ev: shared.next_ev() });
                shared.push(Ev::DropBegin { tid, lo: lo.0.clone(), hi: hi.0.clone(), ev: shared.next_ev() });
                if let Err(e) = tree.drop_range::<Vec<u8>, _>(lo.0.clone()..=hi.0.clone()) {
                    shared.push(Ev::Error { tid, what: format!("drop_range returned Err({e:?})"), ev: shared.next_ev() });
                }
                shared.push(Ev::DropEnd { tid, ev: shared.next_ev() });
                shared.push(Ev::MaintEnd { tid, ev: shared.next_ev() });
            }
        }
    }
}

/// All values a read of `key` at snapshot `s` opened at event `e_s` may legitimately return.
///
/// `clears` are the `clear()` calls of the run as (begin event, end event). A clear is stamped
/// with a seqno drawn inside the call and publishes `visible_seqno` past it before it returns,
/// so a snapshot read after the call returned sees it, one read before the call began does not,
/// and one read in between may or may not. A write that had returned before the call began is
/// erased by it, one that began after it returned is not, and one in flight may go either way.
fn acceptable(
    writes: &[(u64, Vec<WriteItem>, u64, Option<u64>)],
    clears: &[(u64, Option<u64>)],
    key: &[u8],
    s: u64,
    e_s: u64,
) -> Vec<Option<Vec<u8>>> {
    // definite: newest version with seqno < s whose write had completed before the snapshot
    // was read; optional: versions with seqno < s still in flight at that moment
    let mut definite: Option<(u64, Option<Vec<u8>>)> = None;
    let mut optional: Vec<(u64, Option<Vec<u8>>)> = Vec::new();
    for (ws, items, begin, end) in writes {
        if *ws >= s {
            continue;
        }
        // (surely erased, possibly erased) by a clear this snapshot sees / may see
        let mut surely_erased = false;
        let mut maybe_erased = false;
        for (cb, ce) in clears {
            let applied = ce.is_some_and(|ce| ce < e_s);
            let not_applied = *cb > e_s;
            if not_applied {
                continue;
            }
            let before = end.is_some_and(|e| e < *cb);
            let after = ce.is_some_and(|ce| *begin > ce);
            if after {
                continue;
            }
            if applied && before {
                surely_erased = true;
            } else {
                maybe_erased = true;
            }
        }
        if surely_erased {
            continue;
        }
        for w in items {
            if w.k.0 != key {
                continue;
            }
            let val = match w.kind {
                WKind::Put => Some(w.v.0.clone()),
                _ => None,
            };
            let done = end.is_some_and(|e| e < e_s);
            if done && !maybe_erased {
                if definite.as_ref().map_or(true, |d| d.0 < *ws) {
                    definite = Some((*ws, val));
                }
            } else {
                optional.push((*ws, val));
            }
        }
    }
    let mut out = vec![definite.as_ref().map_or(None, |d| d.1.clone())];
    let dseq = definite.as_ref().map(|d| d.0);
    for (ws, v) in optional {
        if dseq.map_or(true, |d| ws > d) {
            out.push(v);
        }
    }
    out
}

#[allow(clippy::too_many_lines)]
pub fn run_conc(prop: &PropDef, spec: &RunSpec, workdir: &Path, index: u64) -> RunResult {
    let cs: ConcSpec = serde_json::from_value(spec.extra.clone()).unwrap_or_default();
    let mut stats = crate::engine::Stats::default();
    let root = workdir.join("t");
    std::fs::create_dir_all(&root).expect("mkdir");
    let seqno = SequenceNumberCounter::default();
    let visible = SequenceNumberCounter::default();
    let flog: FilterLog = Arc::new(Mutex::new(Vec::new()));
    let cfg = build_config(&root, &spec.cfg, seqno.clone(), visible.clone(), None, &flog);
    let tree = match cfg.open() {
        Ok(t) => t,
        Err(e) => {
            let v = Violation {
                tag: "error".into(),
                class: "error/open".into(),
                msg: format!("open failed: {e:?}"),
                at_op: 0,
            };
            return finish_result(prop, spec, index, &stats, Err(v), 1);
        }
    };
    // FS-call yield points need the tree root tracked by simfs
    if cs.yield_on_fs {
        crate::simfs::set_root(root.to_str().unwrap());
        crate::simfs::set_yield_on_fs(true);
    }
    let shared = Arc::new(SharedState {
        last_done: AtomicU64::new(u64::MAX),
        log: Mutex::new(Vec::new()),
        ev: AtomicU64::new(1),
        live: Mutex::new(BTreeMap::new()),
    });
    let n = cs.threads.len() as u32;
    let policy = if cs.policy == "pct" {
        Policy::Pct {
            change_points: cs.pct_changes.clone(),
        }
    } else {
        Policy::Random
    };
    let replay = if cs.decisions.is_empty() {
        None
    } else {
        Some(cs.decisions.clone())
    };
    let mut ctl = Controller::new(
        n,
        crate::rng::Rng::new(cs.sched_seed),
        policy,
        replay,
        cs.max_steps,
    );
    for (i, (_role, acts)) in cs.threads.iter().enumerate() {
        let tid = i as u32 + 1;
        let (acts, tree, seqno, visible, shared) = (
            acts.clone(),
            tree.clone(),
            seqno.clone(),
            visible.clone(),
            shared.clone(),
        );
        ctl.spawn(tid, move || thread_body(tid, acts, tree, seqno, visible, shared));
    }
    let (rep, panicked) = ctl.run();
    crate::simfs::set_yield_on_fs(false);
    crate::simfs::clear_root();

    stats.add("sched_steps", rep.steps);
    stats.add("sched_switches", rep.switches);
    for (k, v) in &rep.site_counts {
        let class = if k.starts_with("fs:") {
            "yield_fs"
        } else if k.starts_with("actor:") {
            "yield_actor"
        } else if k.starts_with("seqno") {
            "yield_seqno"
        } else if k.starts_with("memtable") {
            "yield_memtable"
        } else {
            "yield_lock_probe"
        };
        stats.add(class, *v);
    }
    if cs.policy == "pct" {
        stats.inc("schedules_pct");
    } else {
        stats.inc("schedules_random");
    }
    if cs.yield_on_fs {
        stats.inc("schedules_with_fs_yields");
    }
    if rep.step_limit_hit {
        stats.inc("probe_step_limit_hit");
    }
    stats.log.push(format!("trace={:x} steps={}", rep.trace_hash, rep.steps));

    let log: Vec<Ev> = std::mem::take(&mut *shared.log.lock().unwrap());
    let mut outcome: Result<(), Violation> = Ok(());
    let fail = |tag: &str, class: &str, msg: String| -> Result<(), Violation> {
        Err(Violation {
            tag: tag.into(),
            class: class.into(),
            msg,
            at_op: 0,
        })
    };
    if rep.diverged {
        // the recorded schedule does not fit this execution: harness-level, not a violation
        eprintln!("HARNESS-ERROR sched: replayed schedule diverged");
        unsafe { libc::_exit(2) };
    }
    if let Some(d) = &rep.deadlock {
        outcome = fail(
            "deadlock",
            "conc/deadlock",
            format!("all live threads are blocked on locks: {d}"),
        );
        // threads are parked forever: leave without running destructors
        let mut res = finish_result(prop, spec, index, &stats, outcome, 1);
        attach_schedule(&mut res, &cs, &rep.decisions);
        res.interleavings.push(rep.proj_hash);
        let text = serde_json::to_string(&res).unwrap_or_default();
        let _ = std::fs::write(workdir.join("result.json"), text);
        unsafe { libc::_exit(0) };
    }
    if !panicked.is_empty() {
        let msg = crate::runner::take_panic_msg();
        outcome = fail(
            "panic",
            &format!("conc/{}", crate::runner::panic_class(&msg)),
            format!(
                "thread(s) {:?} ({}) panicked: {msg}",
                panicked,
                panicked
                    .iter()
                    .map(|t| cs.threads[*t as usize - 1].0.clone())
                    .collect::<Vec<_>>()
                    .join(",")
            ),
        );
    }

    // ---- post-hoc history check ----
    let mut writes: Vec<(u64, Vec<WriteItem>, u64, Option<u64>)> = Vec::new();
    let mut snap_ev: BTreeMap<(u32, u64), u64> = BTreeMap::new();
    let mut maint: Vec<(u64, Option<u64>, u32)> = Vec::new();
    let mut ingests = 0u64;
    let mut clears: Vec<(u64, Option<u64>)> = Vec::new();
    // drop_range calls over live ranges: (begin event, lo, hi), bounds inclusive
    let mut drops: Vec<(u64, Vec<u8>, Vec<u8>, u32, Option<u64>)> = Vec::new();
    for e in &log {
        match e {
            Ev::DropBegin { tid, lo, hi, ev } => drops.push((*ev, lo.clone(), hi.clone(), *tid, None)),
            Ev::DropEnd { tid, ev } => {
                if let Some(d) = drops.iter_mut().rev().find(|d| d.3 == *tid && d.4.is_none()) {
                    d.4 = Some(*ev);
                }
            }
            Ev::ClearBegin { ev, .. } => clears.push((*ev, None)),
            Ev::ClearEnd { ev, .. } => {
                if let Some(c) = clears.last_mut() {
                    c.1 = Some(*ev);
                }
            }
            Ev::WriteBegin { s, items, ev } => writes.push((*s, items.clone(), *ev, None)),
            Ev::WriteEnd { s, ev } => {
                if let Some(w) = writes.iter_mut().find(|w| w.0 == *s) {
                    w.3 = Some(*ev);
                }
            }
            Ev::IngestDone { g, items, begin_ev, .. } => {
                // in the unchanged protocol a snapshot above g can only be read after the
                // ingested tables were registered, so these entries are never "in flight"
                writes.push((*g, items.clone(), *begin_ev, Some(0)));
                ingests += 1;
            }
            Ev::MaintBegin { tid, ev, .. } => maint.push((*ev, None, *tid)),
            Ev::MaintEnd { tid, ev } => {
                if let Some(m) = maint.iter_mut().rev().find(|m| m.2 == *tid && m.1.is_none()) {
                    m.1 = Some(*ev);
                }
            }
            _ => {}
        }
    }
    // a key inside the range of a drop_range that had begun when the snapshot was read: the
    // property demands nothing (C15: only keys outside R and earlier snapshots are constrained)
    let unconstrained = |key: &[u8], e_s: u64| -> bool {
        drops
            .iter()
            .any(|(b, lo, hi, _, _)| *b < e_s && lo.as_slice() <= key && key <= hi.as_slice())
    };
    // ... and while the call is still running the answer for such a key may also change
    let drop_in_flight = |key: Option<&[u8]>, e_s: u64| -> bool {
        drops.iter().any(|(b, lo, hi, _, end)| {
            *b < e_s
                && !end.is_some_and(|e| e < e_s)
                && key.map_or(true, |k| lo.as_slice() <= k && k <= hi.as_slice())
        })
    };
    let mut overlapping = 0u64;
    for (i, a) in maint.iter().enumerate() {
        for b in maint.iter().skip(i + 1) {
            let (a0, a1) = (a.0, a.1.unwrap_or(u64::MAX));
            let (b0, b1) = (b.0, b.1.unwrap_or(u64::MAX));
            if a.2 != b.2 && a0 < b1 && b0 < a1 {
                overlapping += 1;
            }
        }
    }
    stats.add("probe_overlapping_maintenance_pairs", overlapping);
    stats.add("probe_concurrent_ingestions", ingests);
    let mut reads_checked = 0u64;
    let mut reads_with_inflight = 0u64;
    if outcome.is_ok() {
        for e in &log {
            match e {
                Ev::SnapOpen { tid, s, ev } => {
                    snap_ev.insert((*tid, *s), *ev);
                }
                Ev::SeqnoCheck { tid, ev_start, got, hi, ev } => {
                    stats.inc("conc_seqno_checks");
                    // lower bound: an inserted value that had been acknowledged before the call
                    // started and was still the newest write to its key when the call returned
                    // is stored (in a memtable or a table) during the whole call - it cannot
                    // have been garbage-collected or evicted
                    let mut lo: Option<u64> = None;
                    for (ws, items, _b, end) in &writes {
                        if !end.is_some_and(|e| e != 0 && e < *ev_start) {
                            continue;
                        }
                        for w in items.iter().filter(|w| w.kind == WKind::Put) {
                            let superseded = writes.iter().any(|(os, oitems, ob, _)| {
                                os > ws && *ob < *ev && oitems.iter().any(|o| o.k == w.k)
                            });
                            if !superseded {
                                lo = lo.max(Some(*ws));
                            }
                        }
                    }
                    let too_low = match (lo, got) {
                        (Some(l), Some(g)) => *g < l,
                        (Some(_), None) => true,
                        _ => false,
                    };
                    let too_high = got.is_some_and(|g| g >= *hi);
                    if too_low || too_high {
                        outcome = fail(
                            "seqno",
                            if too_low { "seqno/concurrent-too-low" } else { "seqno/concurrent-too-high" },
                            format!(
                                "thread {tid}, call between events {ev_start} and {ev}: get_highest_seqno() = {got:?}, but the value written with seqno {lo:?} was acknowledged before the call and not overwritten until it returned (counter stood at {hi})"
                            ),
                        );
                        break;
                    }
                }
                Ev::AuditOk { shape } => {
                    stats.states.insert(*shape);
                    stats.inc("conc_audits_of_published_versions");
                }
                Ev::AuditFail { tid, version, what, ev } => {
                    let class = if what.contains("consulted first") {
                        "structure/recency-order"
                    } else if what.contains("not disjoint") || what.contains("spans tables") {
                        "structure/run-disjointness"
                    } else if what.contains("does not exist") {
                        "structure/missing-file"
                    } else {
                        "structure/metadata"
                    };
                    outcome = fail(
                        "structure",
                        class,
                        format!("auditor thread {tid} at event {ev}: published version {version}: {what}"),
                    );
                    break;
                }
                Ev::Error { tid, what, .. } => {
                    outcome = fail(
                        "error",
                        "conc/error",
                        format!("thread {tid} ({}): {what}", cs.threads[*tid as usize - 1].0),
                    );
                    break;
                }
                Ev::Read { tid, s, e_s, key, got, ev } => {
                    let e_s = *e_s;
                    if unconstrained(key, e_s) {
                        stats.inc("conc_reads_inside_dropped_range");
                        continue;
                    }
                    let acc = acceptable(&writes, &clears, key, *s, e_s);
                    reads_checked += 1;
                    if acc.len() > 1 {
                        reads_with_inflight += 1;
                    }
                    if !acc.contains(got) {
                        outcome = fail(
                            "conc",
                            &format!(
                                "conc/read/{}",
                                match (got, &acc[0]) {
                                    (None, Some(_)) => "lost",
                                    (Some(_), None) => "resurrected-or-phantom",
                                    _ => "stale-or-wrong-value",
                                }
                            ),
                            format!(
                                "reader thread {tid}: get({}) at snapshot {s} (read at event {e_s}, answered at event {ev}) returned {} but acceptable answers are {:?}",
                                Bytes(key.clone()).short(),
                                crate::engine::fmt_opt(got),
                                acc.iter().map(crate::engine::fmt_opt).collect::<Vec<_>>()
                            ),
                        );
                        break;
                    }
                }
                Ev::Scan { tid, s, e_s, got, ev } => {
                    let e_s = *e_s;
                    let _ = ev;
                    reads_checked += 1;
                    let mut prev: Option<&Vec<u8>> = None;
                    let mut bad = None;
                    let got_map: BTreeMap<&Vec<u8>, &Vec<u8>> =
                        got.iter().map(|(k, v)| (k, v)).collect();
                    for (k, _) in got {
                        if prev.is_some_and(|p| p >= k) {
                            bad = Some(format!("scan not strictly ascending at {}", Bytes(k.clone()).short()));
                        }
                        prev = Some(k);
                    }
                    let mut all_keys: BTreeSet<Vec<u8>> = spec.keys.iter().map(|k| k.0.clone()).collect();
                    all_keys.extend(got.iter().map(|(k, _)| k.clone()));
                    for k in &all_keys {
                        if k.starts_with(b"~drop-") || unconstrained(k, e_s) {
                            continue;
                        }
                        let acc = acceptable(&writes, &clears, k, *s, e_s);
                        let g = got_map.get(k).map(|v| (*v).clone());
                        if !acc.contains(&g) {
                            bad = Some(format!(
                                "scan at snapshot {s} yields {} for {} but acceptable answers are {:?}",
                                crate::engine::fmt_opt(&g),
                                Bytes(k.clone()).short(),
                                acc.iter().map(crate::engine::fmt_opt).collect::<Vec<_>>()
                            ));
                            break;
                        }
                    }
                    if let Some(b) = bad {
                        outcome = fail("conc", "conc/scan", format!("reader thread {tid}: {b}"));
                        break;
                    }
                }
                _ => {}
            }
        }
    }
    // snapshot stability: the same question at the same snapshot gets the same answer
    if outcome.is_ok() {
        let mut seen: BTreeMap<(u32, u64, Vec<u8>), (Option<Vec<u8>>, u64)> = BTreeMap::new();
        let mut seen_scan: BTreeMap<(u32, u64), (Vec<(Vec<u8>, Vec<u8>)>, u64)> = BTreeMap::new();
        let mut rereads = 0u64;
        for e in &log {
            match e {
                Ev::Read { tid, s, e_s, key, got, ev } => {
                    // a snapshot that covers a write which had not returned when the snapshot
                    // was read is not one "the writer has already published" for that key
                    if drop_in_flight(Some(key), *e_s)
                        || acceptable(&writes, &clears, key, *s, *e_s).len() > 1
                    {
                        continue;
                    }
                    match seen.get(&(*tid, *e_s, key.clone())) {
                        Some((first, ev0)) => {
                            rereads += 1;
                            if first != got {
                                outcome = fail(
                                    "snapshot",
                                    "conc/snapshot-unstable",
                                    format!(
                                        "reader thread {tid}: get({}) at snapshot {s} returned {} at event {ev0} and {} at event {ev}",
                                        Bytes(key.clone()).short(),
                                        crate::engine::fmt_opt(first),
                                        crate::engine::fmt_opt(got)
                                    ),
                                );
                                break;
                            }
                        }
                        None => {
                            seen.insert((*tid, *e_s, key.clone()), (got.clone(), *ev));
                        }
                    }
                }
                Ev::Scan { tid, s, e_s, got, ev } => match seen_scan.get(&(*tid, *e_s)) {
                    Some((first, ev0)) => {
                        rereads += 1;
                        let inflight = writes
                            .iter()
                            .any(|w| w.0 < *s && !w.3.is_some_and(|e| e < *e_s))
                            || clears
                                .iter()
                                .any(|c| c.0 < *e_s && !c.1.is_some_and(|ce| ce < *e_s))
                            || drop_in_flight(None, *e_s);
                        if first != got && !inflight {
                            outcome = fail(
                                "snapshot",
                                "conc/snapshot-unstable-scan",
                                format!(
                                    "reader thread {tid}: scan at snapshot {s} yielded {} items at event {ev0} and {} items at event {ev} (different content)",
                                    first.len(),
                                    got.len()
                                ),
                            );
                            break;
                        }
                    }
                    None => {
                        seen_scan.insert((*tid, *e_s), (got.clone(), *ev));
                    }
                },
                _ => {}
            }
        }
        stats.add("probe_snapshot_rereads_under_schedule", rereads);
    }
    stats.add("conc_reads_checked", reads_checked);
    stats.add("probe_reads_with_inflight_write", reads_with_inflight);

    // ---- quiescence: every acknowledged write present, structure sound, flush + reopen ----
    let quiescent_view: std::cell::RefCell<Option<BTreeMap<Vec<u8>, Vec<u8>>>> =
        std::cell::RefCell::new(None);
    if outcome.is_ok() {
        outcome = (|| -> Result<(), Violation> {
            let mut want: BTreeMap<Vec<u8>, (Vec<u8>, u64)> = BTreeMap::new();
            let mut newest: BTreeMap<Vec<u8>, (u64, Option<Vec<u8>>)> = BTreeMap::new();
            for (s, items, _, _) in &writes {
                for w in items {
                    let e = newest.entry(w.k.0.clone()).or_insert((*s, None));
                    if e.0 <= *s {
                        *e = (
                            *s,
                            match w.kind {
                                WKind::Put => Some(w.v.0.clone()),
                                _ => None,
                            },
                        );
                    }
                }
            }
            for (k, (s, v)) in &newest {
                if let Some(v) = v {
                    want.insert(k.clone(), (v.clone(), *s));
                }
            }
            let dump = |tree: &AnyTree| -> Result<BTreeMap<Vec<u8>, (Vec<u8>, u64)>, String> {
                let mut out = BTreeMap::new();
                for g in tree.iter(u64::MAX, None) {
                    let (k, v) = g.into_inner().map_err(|e| format!("{e:?}"))?;
                    let e = tree
                        .get_internal_entry(&k, u64::MAX)
                        .map_err(|e| format!("{e:?}"))?;
                    out.insert(k.to_vec(), (v.to_vec(), e.map_or(u64::MAX, |e| e.key.seqno)));
                }
                Ok(out)
            };
            let got = dump(&tree).map_err(|e| Violation {
                tag: "error".into(),
                class: "conc/error-at-quiescence".into(),
                msg: format!("scan at quiescence failed: {e}"),
                at_op: 0,
            })?;
            if !clears.is_empty() || !drops.is_empty() {
                // with clear() in the run some writes may legitimately have gone either way;
                // keys inside a dropped range are unconstrained
                let mut all_keys: BTreeSet<Vec<u8>> = spec.keys.iter().map(|k| k.0.clone()).collect();
                all_keys.extend(got.keys().cloned());
                for k in &all_keys {
                    if unconstrained(k, u64::MAX) {
                        continue;
                    }
                    let acc = acceptable(&writes, &clears, k, u64::MAX, u64::MAX);
                    let g = got.get(k).map(|x| x.0.clone());
                    if !acc.contains(&g) {
                        return fail(
                            "conc",
                            if g.is_some() { "conc/quiescent-content/resurrected" } else { "conc/quiescent-content/lost" },
                            format!(
                                "after all threads finished get({}) = {} but with the clear() calls at events {:?} the acceptable answers are {:?}",
                                Bytes(k.clone()).short(),
                                crate::engine::fmt_opt(&g),
                                clears,
                                acc.iter().map(crate::engine::fmt_opt).collect::<Vec<_>>()
                            ),
                        );
                    }
                }
                *quiescent_view.borrow_mut() =
                    Some(got.iter().map(|(k, v)| (k.clone(), v.0.clone())).collect());
            } else if got != want {
                return fail(
                    "conc",
                    "conc/quiescent-content",
                    format!(
                        "after all threads finished the tree holds {} but the acknowledged writes amount to {}",
                        crate::engine::fmt_view(&got),
                        crate::engine::fmt_view(&want)
                    ),
                );
            }
            let hidden = lsm_tree::verif::hidden_table_ids(&tree);
            if !hidden.is_empty() {
                return fail(
                    "conc",
                    "conc/tables-left-hidden",
                    format!("after all threads finished tables {hidden:?} are still hidden"),
                );
            }
            let a = audit::audit_tree(&tree);
            stats.states.insert(a.shape_hash());
            if a.shape.first().is_some_and(|l| l.len() >= 2)
                || a.shape.iter().any(|l| l.iter().any(|&n| n >= 2))
            {
                stats.inc("audit_nontrivial_shape");
            }
            let probs = a.check_structure();
            if !probs.is_empty() {
                let class = if probs[0].contains("consulted first") {
                    "structure/recency-order"
                } else if probs[0].contains("not disjoint") || probs[0].contains("spans tables") {
                    "structure/run-disjointness"
                } else if probs[0].contains("does not exist") {
                    "structure/missing-file"
                } else {
                    "structure/metadata"
                };
                return fail(
                    "structure",
                    class,
                    format!("version {} at quiescence: {}", a.version_id, probs.join("; ")),
                );
            }
            let probs = a.check_version_file(&root);
            if !probs.is_empty() {
                return fail(
                    "structure",
                    "structure/version-file",
                    format!("version {} at quiescence: {}", a.version_id, probs.join("; ")),
                );
            }
            // flush everything and reopen
            tree.flush_active_memtable(0).map_err(|e| Violation {
                tag: "error".into(),
                class: "conc/error-final-flush".into(),
                msg: format!("final flush failed: {e:?}"),
                at_op: 0,
            })?;
            Ok(())
        })();
    }
    drop(tree);
    if outcome.is_ok() {
        outcome = (|| -> Result<(), Violation> {
            let flog: FilterLog = Arc::new(Mutex::new(Vec::new()));
            let cfg = build_config(
                &root,
                &spec.cfg,
                SequenceNumberCounter::default(),
                SequenceNumberCounter::default(),
                None,
                &flog,
            );
            let t2 = cfg.open().map_err(|e| Violation {
                tag: "error".into(),
                class: "conc/error-reopen".into(),
                msg: format!("reopen failed: {e:?}"),
                at_op: 0,
            })?;
            let mut want: BTreeMap<Vec<u8>, Vec<u8>> = BTreeMap::new();
            let mut newest: BTreeMap<Vec<u8>, (u64, Option<Vec<u8>>)> = BTreeMap::new();
            for (s, items, _, _) in &writes {
                for w in items {
                    let e = newest.entry(w.k.0.clone()).or_insert((*s, None));
                    if e.0 <= *s {
                        *e = (*s, if w.kind == WKind::Put { Some(w.v.0.clone()) } else { None });
                    }
                }
            }
            for (k, (_, v)) in newest {
                if let Some(v) = v {
                    want.insert(k, v);
                }
            }
            if let Some(q) = quiescent_view.borrow_mut().take() {
                // runs with clear(): the reopened tree must hold what it held at quiescence
                want = q;
            }
            let mut got: BTreeMap<Vec<u8>, Vec<u8>> = BTreeMap::new();
            for g in t2.iter(u64::MAX, None) {
                let (k, v) = g.into_inner().map_err(|e| Violation {
                    tag: "error".into(),
                    class: "conc/error-reopen-scan".into(),
                    msg: format!("{e:?}"),
                    at_op: 0,
                })?;
                got.insert(k.to_vec(), v.to_vec());
            }
            if got != want {
                return fail(
                    "conc",
                    "conc/reopen-content",
                    format!(
                        "after flush + reopen the tree holds {} keys, the acknowledged writes amount to {} keys",
                        got.len(),
                        want.len()
                    ),
                );
            }
            Ok(())
        })();
    }
    if overlapping >= 1 && rep.switches >= 10 {
        stats.inc("conc_nontrivial");
    }
    let mut res = finish_result(prop, spec, index, &stats, outcome, 1);
    attach_schedule(&mut res, &cs, &rep.decisions);
    res.interleavings.push(rep.proj_hash);
    res
}

fn attach_schedule(res: &mut RunResult, cs: &ConcSpec, decisions: &[u8]) {
    if let Some(s) = res.spec.as_mut() {
        let mut c = cs.clone();
        c.decisions = decisions.to_vec();
        s.extra = serde_json::to_value(&c).unwrap();
    }
}
