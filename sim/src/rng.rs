//! The single source of randomness of a simulated run: xoshiro256** seeded through SplitMix64.
//! Nothing else in the harness draws random numbers; logging never touches it.

#[derive(Clone, Debug)]
pub struct Rng {
    s: [u64; 4],
    pub draws: u64,
}

pub fn splitmix64(x: &mut u64) -> u64 {
    *x = x.wrapping_add(0x9E37_79B9_7F4A_7C15);
    let mut z = *x;
    z = (z ^ (z >> 30)).wrapping_mul(0xBF58_476D_1CE4_E5B9);
    z = (z ^ (z >> 27)).wrapping_mul(0x94D0_49BB_1331_11EB);
    z ^ (z >> 31)
}

/// Mixes several integers into one seed (used for `run_seed = H(VERIF_SEED, property, index)`).
pub fn mix(parts: &[u64]) -> u64 {
    let mut h = 0x243F_6A88_85A3_08D3u64;
    for p in parts {
        h ^= *p;
        let mut x = h;
        h = splitmix64(&mut x);
    }
    h
}

pub fn hash_bytes(b: &[u8]) -> u64 {
    // FNV-1a 64 followed by a splitmix finaliser; only used for digests and distinct-counting.
    let mut h = 0xcbf2_9ce4_8422_2325u64;
    for &c in b {
        h ^= u64::from(c);
        h = h.wrapping_mul(0x0100_0000_01b3);
    }
    let mut x = h;
    splitmix64(&mut x)
}

impl Rng {
    pub fn new(seed: u64) -> Self {
        let mut x = seed;
        let s = [
            splitmix64(&mut x),
            splitmix64(&mut x),
            splitmix64(&mut x),
            splitmix64(&mut x),
        ];
        Self { s, draws: 0 }
    }

    pub fn next_u64(&mut self) -> u64 {
        self.draws += 1;
        let result = self.s[1].wrapping_mul(5).rotate_left(7).wrapping_mul(9);
        let t = self.s[1] << 17;
        self.s[2] ^= self.s[0];
        self.s[3] ^= self.s[1];
        self.s[1] ^= self.s[2];
        self.s[0] ^= self.s[3];
        self.s[2] ^= t;
        self.s[3] = self.s[3].rotate_left(45);
        result
    }

    /// Uniform in `0..n` (n > 0).
    pub fn below(&mut self, n: u64) -> u64 {
        debug_assert!(n > 0);
        // multiply-shift; bias is irrelevant for our purposes
        ((u128::from(self.next_u64()) * u128::from(n)) >> 64) as u64
    }

    pub fn usize(&mut self, n: usize) -> usize {
        self.below(n as u64) as usize
    }

    /// Inclusive range.
    pub fn range(&mut self, lo: u64, hi: u64) -> u64 {
        debug_assert!(lo <= hi);
        lo + self.below(hi - lo + 1)
    }

    pub fn chance(&mut self, num: u64, den: u64) -> bool {
        self.below(den) < num
    }

    pub fn f64(&mut self) -> f64 {
        (self.next_u64() >> 11) as f64 / (1u64 << 53) as f64
    }

    pub fn pick<'a, T>(&mut self, xs: &'a [T]) -> &'a T {
        &xs[self.usize(xs.len())]
    }

    /// Index drawn according to integer weights (at least one weight must be > 0).
    pub fn weighted(&mut self, weights: &[u32]) -> usize {
        let total: u64 = weights.iter().map(|&w| u64::from(w)).sum();
        debug_assert!(total > 0);
        let mut x = self.below(total);
        for (i, &w) in weights.iter().enumerate() {
            if x < u64::from(w) {
                return i;
            }
            x -= u64::from(w);
        }
        weights.len() - 1
    }

    /// Derives an independent stream (for sub-components) without disturbing reproducibility.
    pub fn fork(&mut self) -> Rng {
        Rng::new(self.next_u64())
    }
}
