//! Structural auditor (read-only): scans every table of a version, decodes blob pointers, lists
//! directories with plain `readdir` and decodes the on-disk version file with the crate's own
//! decoder. Decides C07, C09, C18, C20; elsewhere its findings are observations only.

use lsm_tree::verif::VersionDump;
use lsm_tree::{AbstractTree, AnyTree, ValueType};
use std::collections::{BTreeMap, BTreeSet};

#[derive(Clone, Debug)]
pub struct Entry {
    pub key: Vec<u8>,
    pub seqno: u64,
    pub vtype: ValueType,
    pub value: Vec<u8>,
    /// decoded indirection: (blob file id, offset, on-disk size, value size)
    pub ind: Option<(u64, u64, u32, u32)>,
}

#[derive(Clone, Debug)]
pub struct TableAudit {
    pub id: u64,
    pub level: usize,
    pub run: usize,
    pub pos: usize,
    pub global_seqno: u64,
    pub meta_min_key: Vec<u8>,
    pub meta_max_key: Vec<u8>,
    pub meta_seqnos: (u64, u64),
    pub meta_items: u64,
    pub meta_tombstones: u64,
    pub meta_weak_tombstones: u64,
    pub created_at: u128,
    pub file_size: u64,
    pub highest_seqno: u64,
    pub path: String,
    pub checksum: u128,
    pub entries: Vec<Entry>,
    /// (blob_file_id, bytes, on_disk_bytes, len) as recorded in the table's linked-files section
    pub linked: Vec<(u64, u64, u64, usize)>,
    pub scan_error: Option<String>,
}

#[derive(Clone, Debug)]
pub struct BlobAudit {
    pub id: u64,
    pub items: u64,
    pub total_compressed: u64,
    pub total_uncompressed: u64,
    pub created_at: u128,
    pub path: String,
    pub checksum: u128,
}

#[derive(Clone, Debug)]
pub struct Audit {
    pub version_id: u64,
    pub tables: Vec<TableAudit>,
    pub blobs: Vec<BlobAudit>,
    pub gc_stats: Vec<(u64, usize, u64, u64)>,
    /// number of runs per level
    pub shape: Vec<Vec<usize>>,
}

pub fn audit_dump(d: &VersionDump) -> Audit {
    let mut tables = Vec::new();
    let mut shape = Vec::new();
    for (li, level) in d.levels.iter().enumerate() {
        let mut lshape = Vec::new();
        for (ri, run) in level.iter().enumerate() {
            lshape.push(run.len());
            for (pi, t) in run.iter().enumerate() {
                let mut entries = Vec::new();
                let mut scan_error = None;
                for item in t.iter() {
                    match item {
                        Ok(iv) => {
                            let ind = if iv.key.value_type == ValueType::Indirection {
                                lsm_tree::verif::decode_indirection(&iv.value)
                            } else {
                                None
                            };
                            entries.push(Entry {
                                key: iv.key.user_key.to_vec(),
                                seqno: iv.key.seqno,
                                vtype: iv.key.value_type,
                                value: iv.value.to_vec(),
                                ind,
                            });
                        }
                        Err(e) => {
                            scan_error = Some(format!("{e:?}"));
                            break;
                        }
                    }
                }
                let linked = match t.list_blob_file_references() {
                    Ok(Some(v)) => v
                        .iter()
                        .map(|l| (l.blob_file_id, l.bytes, l.on_disk_bytes, l.len))
                        .collect(),
                    Ok(None) => vec![],
                    Err(e) => {
                        scan_error.get_or_insert(format!("linked files: {e:?}"));
                        vec![]
                    }
                };
                tables.push(TableAudit {
                    id: t.id(),
                    level: li,
                    run: ri,
                    pos: pi,
                    global_seqno: t.global_seqno(),
                    meta_min_key: t.metadata.key_range.min().to_vec(),
                    meta_max_key: t.metadata.key_range.max().to_vec(),
                    meta_seqnos: lsm_tree::verif::table_seqnos(t),
                    meta_items: t.metadata.item_count,
                    meta_tombstones: t.metadata.tombstone_count,
                    meta_weak_tombstones: t.metadata.weak_tombstone_count,
                    created_at: t.metadata.created_at.into(),
                    file_size: t.metadata.file_size,
                    highest_seqno: t.get_highest_seqno(),
                    path: t.path.to_string_lossy().to_string(),
                    checksum: t.checksum().into_u128(),
                    entries,
                    linked,
                    scan_error,
                });
            }
        }
        shape.push(lshape);
    }
    let blobs = d
        .blob_files
        .iter()
        .map(|b| BlobAudit {
            id: b.id,
            items: b.item_count,
            total_compressed: b.total_compressed_bytes,
            total_uncompressed: b.total_uncompressed_bytes,
            created_at: b.created_at,
            path: b.path.to_string_lossy().to_string(),
            checksum: b.checksum,
        })
        .collect();
    Audit {
        version_id: d.id,
        tables,
        blobs,
        gc_stats: d.gc_stats.clone(),
        shape,
    }
}

pub fn audit_tree(tree: &AnyTree) -> Audit {
    audit_dump(&lsm_tree::verif::dump_current(tree))
}

/// Audit of the currently published version while concurrent maintenance may be running: the
/// structural checks (incl. file existence) are evaluated while the table handles of that
/// version are still held, so a legitimately superseded version cannot lose its files under us.
pub fn audit_tree_checked(tree: &AnyTree) -> (Audit, Vec<String>) {
    let dump = lsm_tree::verif::dump_current(tree);
    let a = audit_dump(&dump);
    let probs = a.check_structure();
    drop(dump);
    (a, probs)
}

fn kk(k: &[u8]) -> String {
    crate::spec::Bytes(k.to_vec()).short()
}

impl Audit {
    /// Hash of the structural shape (distinct-state counting).
    pub fn shape_hash(&self) -> u64 {
        let mut s = String::new();
        for (li, l) in self.shape.iter().enumerate() {
            if !l.is_empty() {
                s.push_str(&format!("L{li}:{l:?};"));
            }
        }
        s.push_str(&format!("b{}", self.blobs.len()));
        crate::rng::hash_bytes(s.as_bytes())
    }

    pub fn shape_string(&self) -> String {
        let mut s = String::new();
        for (li, l) in self.shape.iter().enumerate() {
            if !l.is_empty() {
                s.push_str(&format!("L{li}{l:?} "));
            }
        }
        if !self.blobs.is_empty() {
            s.push_str(&format!("blobs={}", self.blobs.len()));
        }
        s
    }

    /// All physically present (key, seqno) pairs in tables.
    pub fn present_pairs(&self) -> BTreeSet<(Vec<u8>, u64)> {
        self.tables
            .iter()
            .flat_map(|t| t.entries.iter().map(|e| (e.key.clone(), e.seqno)))
            .collect()
    }

    pub fn max_persisted_seqno(&self) -> Option<u64> {
        self.tables
            .iter()
            .flat_map(|t| t.entries.iter().map(|e| e.seqno))
            .max()
    }

    /// C07: structural soundness of this version. Returns human-readable problems.
    pub fn check_structure(&self) -> Vec<String> {
        let mut p = Vec::new();
        for t in &self.tables {
            if let Some(e) = &t.scan_error {
                p.push(format!("table {} scan failed: {e}", t.id));
                continue;
            }
            if t.entries.is_empty() {
                p.push(format!("table {} is empty", t.id));
                continue;
            }
            // entries strictly ordered by (key asc, seqno desc)
            for w in t.entries.windows(2) {
                let ok = w[0].key < w[1].key || (w[0].key == w[1].key && w[0].seqno > w[1].seqno);
                if !ok {
                    p.push(format!(
                        "table {} entries out of order: {}@{} then {}@{}",
                        t.id,
                        kk(&w[0].key),
                        w[0].seqno,
                        kk(&w[1].key),
                        w[1].seqno
                    ));
                    break;
                }
            }
            let first = &t.entries[0].key;
            let last = &t.entries[t.entries.len() - 1].key;
            if first != &t.meta_min_key || last != &t.meta_max_key {
                p.push(format!(
                    "table {} key range metadata [{}, {}] != contents [{}, {}]",
                    t.id,
                    kk(&t.meta_min_key),
                    kk(&t.meta_max_key),
                    kk(first),
                    kk(last)
                ));
            }
            let lo = t.entries.iter().map(|e| e.seqno).min().unwrap();
            let hi = t.entries.iter().map(|e| e.seqno).max().unwrap();
            let (mlo, mhi) = (
                t.meta_seqnos.0 + t.global_seqno,
                t.meta_seqnos.1 + t.global_seqno,
            );
            if (lo, hi) != (mlo, mhi) {
                p.push(format!(
                    "table {} seqno range metadata ({mlo},{mhi}) != contents ({lo},{hi})",
                    t.id
                ));
            }
            if hi != t.highest_seqno {
                p.push(format!(
                    "table {} get_highest_seqno {} != max stored seqno {hi}",
                    t.id, t.highest_seqno
                ));
            }
            if t.meta_items != t.entries.len() as u64 {
                p.push(format!(
                    "table {} item_count {} != {} scanned",
                    t.id,
                    t.meta_items,
                    t.entries.len()
                ));
            }
            let tomb = t.entries.iter().filter(|e| e.vtype.is_tombstone()).count() as u64;
            let weak = t
                .entries
                .iter()
                .filter(|e| e.vtype == ValueType::WeakTombstone)
                .count() as u64;
            if t.meta_tombstones != tomb {
                p.push(format!(
                    "table {} tombstone_count {} != {tomb} scanned",
                    t.id, t.meta_tombstones
                ));
            }
            if t.meta_weak_tombstones != weak {
                p.push(format!(
                    "table {} weak_tombstone_count {} != {weak} scanned",
                    t.id, t.meta_weak_tombstones
                ));
            }
            if !crate::simfs::bypass(|| std::path::Path::new(&t.path).exists()) {
                p.push(format!("table {} file {} does not exist", t.id, t.path));
            }
        }
        // runs: sorted, pairwise disjoint
        let mut runs: BTreeMap<(usize, usize), Vec<&TableAudit>> = BTreeMap::new();
        for t in &self.tables {
            runs.entry((t.level, t.run)).or_default().push(t);
        }
        for ((l, r), ts) in &runs {
            let mut ts = ts.clone();
            ts.sort_by_key(|t| t.pos);
            for w in ts.windows(2) {
                if !(w[0].meta_max_key < w[1].meta_min_key) {
                    p.push(format!(
                        "L{l} run {r}: tables {} [{}..{}] and {} [{}..{}] not disjoint/ascending",
                        w[0].id,
                        kk(&w[0].meta_min_key),
                        kk(&w[0].meta_max_key),
                        w[1].id,
                        kk(&w[1].meta_min_key),
                        kk(&w[1].meta_max_key)
                    ));
                }
                if let (Some(a), Some(b)) = (w[0].entries.last(), w[1].entries.first()) {
                    if !(a.key < b.key) {
                        p.push(format!(
                            "L{l} run {r}: key {} spans tables {} and {}",
                            kk(&a.key),
                            w[0].id,
                            w[1].id
                        ));
                    }
                }
            }
        }
        // recency across runs: a table consulted earlier holds only newer seqnos for a shared key
        let mut per_key: BTreeMap<&[u8], Vec<(usize, usize, u64, u64, u64)>> = BTreeMap::new();
        for t in &self.tables {
            let mut i = 0;
            while i < t.entries.len() {
                let k = &t.entries[i].key;
                let mut lo = u64::MAX;
                let mut hi = 0;
                let mut j = i;
                while j < t.entries.len() && &t.entries[j].key == k {
                    lo = lo.min(t.entries[j].seqno);
                    hi = hi.max(t.entries[j].seqno);
                    j += 1;
                }
                per_key
                    .entry(k.as_slice())
                    .or_default()
                    .push((t.level, t.run, t.id, lo, hi));
                i = j;
            }
        }
        for (k, v) in &mut per_key {
            v.sort_by_key(|x| (x.0, x.1));
            for w in v.windows(2) {
                // w[0] is consulted before w[1]
                if !(w[0].3 > w[1].4) {
                    p.push(format!(
                        "key {}: table {} (L{} run {}) consulted first holds seqno {} <= seqno {} in table {} (L{} run {})",
                        kk(k), w[0].2, w[0].0, w[0].1, w[0].3, w[1].4, w[1].2, w[1].0, w[1].1
                    ));
                }
            }
        }
        for b in &self.blobs {
            if !crate::simfs::bypass(|| std::path::Path::new(&b.path).exists()) {
                p.push(format!("blob file {} ({}) does not exist", b.id, b.path));
            }
        }
        p
    }

    /// C07 last clause: the version file named by `current` decodes to this structure.
    pub fn check_version_file(&self, folder: &std::path::Path) -> Vec<String> {
        let mut p = Vec::new();
        let dec = match crate::simfs::bypass(|| lsm_tree::verif::decode_current_version(folder)) {
            Ok(d) => d,
            Err(e) => return vec![format!("current version file does not decode: {e:?}")],
        };
        if dec.version_id != self.version_id {
            p.push(format!(
                "`current` names version {} but the tree publishes {}",
                dec.version_id, self.version_id
            ));
            return p;
        }
        let mut mine: Vec<Vec<Vec<(u64, u128, u64)>>> = vec![];
        for (li, l) in self.shape.iter().enumerate() {
            let mut lv = vec![];
            for (ri, _) in l.iter().enumerate() {
                let mut ts: Vec<&TableAudit> = self
                    .tables
                    .iter()
                    .filter(|t| t.level == li && t.run == ri)
                    .collect();
                ts.sort_by_key(|t| t.pos);
                lv.push(
                    ts.iter()
                        .map(|t| (t.id, t.checksum, t.global_seqno))
                        .collect::<Vec<_>>(),
                );
            }
            mine.push(lv);
        }
        if dec.levels != mine {
            p.push(format!(
                "version file levels {:?} != in-memory {:?}",
                dec.levels
                    .iter()
                    .map(|l| l
                        .iter()
                        .map(|r| r.iter().map(|t| (t.0, t.2)).collect::<Vec<_>>())
                        .collect::<Vec<_>>())
                    .collect::<Vec<_>>(),
                mine.iter()
                    .map(|l| l
                        .iter()
                        .map(|r| r.iter().map(|t| (t.0, t.2)).collect::<Vec<_>>())
                        .collect::<Vec<_>>())
                    .collect::<Vec<_>>()
            ));
        }
        let mut dblobs = dec.blob_files.clone();
        dblobs.sort_unstable();
        let mut mblobs: Vec<(u64, u128)> = self.blobs.iter().map(|b| (b.id, b.checksum)).collect();
        mblobs.sort_unstable();
        if dblobs != mblobs {
            p.push(format!(
                "version file blob files {:?} != in-memory {:?}",
                dblobs.iter().map(|b| b.0).collect::<Vec<_>>(),
                mblobs.iter().map(|b| b.0).collect::<Vec<_>>()
            ));
        }
        // statistics are compared for the blob files of the version only (leftover entries of
        // files that already left the version are outside the property's statement)
        let live = |v: &Vec<(u64, usize, u64, u64)>| -> Vec<(u64, usize, u64, u64)> {
            v.iter()
                .filter(|e| self.blobs.iter().any(|b| b.id == e.0))
                .copied()
                .collect()
        };
        if live(&dec.gc_stats) != live(&self.gc_stats) {
            p.push(format!(
                "version file gc stats {:?} != in-memory {:?}",
                dec.gc_stats, self.gc_stats
            ));
        }
        p
    }

    /// References into blob files from the tables of this version:
    /// blob file id -> set of (offset, on_disk_size, value size).
    pub fn blob_refs(&self) -> BTreeMap<u64, BTreeSet<(u64, u32, u32)>> {
        let mut m: BTreeMap<u64, BTreeSet<(u64, u32, u32)>> = BTreeMap::new();
        for t in &self.tables {
            for e in &t.entries {
                if let Some((f, off, od, sz)) = e.ind {
                    m.entry(f).or_default().insert((off, od, sz));
                }
            }
        }
        m
    }
}

/// Lists a tree directory: (table file names, blob file names, version file names, other).
pub struct DirListing {
    pub tables: BTreeSet<String>,
    pub blobs: BTreeSet<String>,
    pub versions: BTreeSet<String>,
    pub other: BTreeSet<String>,
    pub has_current: bool,
}

pub fn list_dir(root: &std::path::Path) -> DirListing {
    crate::simfs::bypass(|| {
        let ls = |p: std::path::PathBuf| -> BTreeSet<String> {
            std::fs::read_dir(p)
                .map(|rd| {
                    rd.filter_map(Result::ok)
                        .map(|e| e.file_name().to_string_lossy().to_string())
                        .collect()
                })
                .unwrap_or_default()
        };
        let top = ls(root.to_path_buf());
        let mut versions = BTreeSet::new();
        let mut other = BTreeSet::new();
        let mut has_current = false;
        for n in top {
            if n == "tables" || n == "blobs" {
                continue;
            }
            if n == "current" {
                has_current = true;
            } else if n.starts_with('v') && n[1..].chars().all(|c| c.is_ascii_digit()) && n.len() > 1
            {
                versions.insert(n);
            } else {
                other.insert(n);
            }
        }
        let mut tables = BTreeSet::new();
        for n in ls(root.join("tables")) {
            if n.chars().all(|c| c.is_ascii_digit()) {
                tables.insert(n);
            } else {
                other.insert(format!("tables/{n}"));
            }
        }
        let mut blobs = BTreeSet::new();
        for n in ls(root.join("blobs")) {
            if n.chars().all(|c| c.is_ascii_digit()) {
                blobs.insert(n);
            } else {
                other.insert(format!("blobs/{n}"));
            }
        }
        DirListing {
            tables,
            blobs,
            versions,
            other,
            has_current,
        }
    })
}

/// Highest-seqno API cross-check helper (C18).
pub fn api_seqnos(tree: &AnyTree) -> (Option<u64>, Option<u64>, Option<u64>) {
    (
        tree.get_highest_persisted_seqno(),
        tree.get_highest_memtable_seqno(),
        tree.get_highest_seqno(),
    )
}
