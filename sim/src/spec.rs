//! Explicit, serialisable description of one simulated execution. The generator produces it
//! from a seed; a replay file *is* one of these (plus the expected violation), so replay
//! executes the file, not the seed.

use serde::{Deserialize, Serialize};

#[derive(Clone, PartialEq, Eq, PartialOrd, Ord, Hash, Default)]
pub struct Bytes(pub Vec<u8>);

impl std::fmt::Debug for Bytes {
    fn fmt(&self, f: &mut std::fmt::Formatter<'_>) -> std::fmt::Result {
        write!(f, "{}", self.pretty())
    }
}

impl Bytes {
    pub fn pretty(&self) -> String {
        let mut s = String::new();
        for &b in &self.0 {
            if b.is_ascii_alphanumeric() || b == b'_' || b == b':' || b == b'-' || b == b'.' {
                s.push(b as char);
            } else {
                s.push_str(&format!("\\x{b:02x}"));
            }
        }
        s
    }

    pub fn short(&self) -> String {
        let p = self.pretty();
        if p.len() > 24 {
            format!("{}..({}B)", &p[..20], self.0.len())
        } else {
            p
        }
    }
}

impl Serialize for Bytes {
    fn serialize<S: serde::Serializer>(&self, s: S) -> Result<S::Ok, S::Error> {
        s.serialize_str(&self.pretty())
    }
}

impl<'de> Deserialize<'de> for Bytes {
    fn deserialize<D: serde::Deserializer<'de>>(d: D) -> Result<Self, D::Error> {
        let s = String::deserialize(d)?;
        let b = s.as_bytes();
        let mut out = Vec::new();
        let mut i = 0;
        while i < b.len() {
            if b[i] == b'\\' && i + 3 < b.len() && b[i + 1] == b'x' {
                let h = std::str::from_utf8(&b[i + 2..i + 4]).map_err(serde::de::Error::custom)?;
                out.push(u8::from_str_radix(h, 16).map_err(serde::de::Error::custom)?);
                i += 4;
            } else {
                out.push(b[i]);
                i += 1;
            }
        }
        Ok(Bytes(out))
    }
}

impl From<&[u8]> for Bytes {
    fn from(b: &[u8]) -> Self {
        Bytes(b.to_vec())
    }
}

impl From<Vec<u8>> for Bytes {
    fn from(b: Vec<u8>) -> Self {
        Bytes(b)
    }
}

#[derive(Clone, Debug, Serialize, Deserialize, PartialEq)]
pub enum FilterSpec {
    None,
    Bits(f32),
    Fpr(f32),
}

#[derive(Clone, Debug, Serialize, Deserialize, PartialEq)]
pub struct BlobSpec {
    pub threshold: u32,
    pub file_target: u64,
    pub staleness: f32,
    pub age_cutoff: f32,
    pub lz4: bool,
}

/// Deterministic compaction-filter verdict function, keyed by `salt`.
#[derive(Clone, Debug, Serialize, Deserialize, PartialEq)]
pub struct FilterFnSpec {
    pub salt: u64,
    /// weights for Keep, Remove, ReplaceSmall, ReplaceLarge, RemoveWeak, Destroy
    pub weights: [u32; 6],
}

#[derive(Clone, Debug, Serialize, Deserialize, PartialEq)]
pub struct CfgSpec {
    pub blob: Option<BlobSpec>,
    pub block_size: u32,
    pub restart_interval: u8,
    pub hash_ratio: f32,
    pub index_part: Vec<bool>,
    pub filter_part: Vec<bool>,
    pub pin_index: Vec<bool>,
    pub pin_filter: Vec<bool>,
    pub filter: FilterSpec,
    pub expect_hits: bool,
    pub lz4: bool,
    pub cache_bytes: u64,
    pub fd_table: Option<usize>,
    pub filter_fn: Option<FilterFnSpec>,
}

impl CfgSpec {
    pub fn plain() -> Self {
        Self {
            blob: None,
            block_size: 4096,
            restart_interval: 16,
            hash_ratio: 0.0,
            index_part: vec![false, false, false, true],
            filter_part: vec![false, false, false, true],
            pin_index: vec![true, true, false],
            pin_filter: vec![true, false],
            filter: FilterSpec::Bits(10.0),
            expect_hits: false,
            lz4: false,
            cache_bytes: 16 << 20,
            fd_table: Some(256),
            filter_fn: None,
        }
    }

    /// Number of knobs that differ from another configuration (C11's non-triviality rule).
    pub fn knob_distance(&self, o: &Self) -> usize {
        let mut n = 0;
        n += usize::from(self.blob != o.blob);
        n += usize::from(self.block_size != o.block_size);
        n += usize::from(self.restart_interval != o.restart_interval);
        n += usize::from(self.hash_ratio != o.hash_ratio);
        n += usize::from(self.index_part != o.index_part);
        n += usize::from(self.filter_part != o.filter_part);
        n += usize::from(self.pin_index != o.pin_index);
        n += usize::from(self.pin_filter != o.pin_filter);
        n += usize::from(self.filter != o.filter);
        n += usize::from(self.expect_hits != o.expect_hits);
        n += usize::from(self.lz4 != o.lz4);
        n += usize::from(self.cache_bytes != o.cache_bytes);
        n += usize::from(self.fd_table != o.fd_table);
        n
    }
}

/// GC watermark choice, resolved at execution time against the oldest live snapshot so that
/// every sub-history stays inside the documented usage protocol.
#[derive(Clone, Copy, Debug, Serialize, Deserialize, PartialEq)]
pub enum Wm {
    Zero,
    One,
    /// `min(live snapshots, visible) - 1`
    Max,
    /// fraction (n/256) of the maximum
    Frac(u8),
}

#[derive(Clone, Debug, Serialize, Deserialize, PartialEq, Eq, PartialOrd, Ord)]
pub enum BoundSpec {
    Unbounded,
    Included(Bytes),
    Excluded(Bytes),
}

impl BoundSpec {
    pub fn as_bound(&self) -> std::ops::Bound<Vec<u8>> {
        match self {
            BoundSpec::Unbounded => std::ops::Bound::Unbounded,
            BoundSpec::Included(b) => std::ops::Bound::Included(b.0.clone()),
            BoundSpec::Excluded(b) => std::ops::Bound::Excluded(b.0.clone()),
        }
    }
}

/// Which snapshot a read uses.
#[derive(Clone, Copy, Debug, Serialize, Deserialize, PartialEq)]
pub enum SnapSel {
    /// `visible_seqno.get()` at the time of the read
    Latest,
    /// `SeqNo::MAX`
    Max,
    /// i-th live snapshot (modulo the number alive; `Latest` if none)
    Live(usize),
}

#[derive(Clone, Copy, Debug, Serialize, Deserialize, PartialEq, Eq)]
pub enum WKind {
    Put,
    Del,
    WeakDel,
}

#[derive(Clone, Debug, Serialize, Deserialize, PartialEq)]
pub struct WriteItem {
    pub k: Bytes,
    pub kind: WKind,
    pub v: Bytes,
}

#[derive(Clone, Debug, Serialize, Deserialize, PartialEq)]
pub enum Op {
    /// One write batch (a single insert/remove is a batch of one): all items share one seqno.
    Write { items: Vec<WriteItem> },
    Rotate,
    /// `flush` of the sealed memtables only
    Flush { wm: Wm },
    /// `flush_active_memtable` = rotate + flush
    FlushActive { wm: Wm },
    Leveled { l0: u8, target: u64, ratio: f32, wm: Wm },
    Major { target: u64, wm: Wm },
    MoveDown { from: u8, to: u8, wm: Wm },
    PullDown { from: u8, to: u8, wm: Wm },
    Fifo { limit: u64, ttl: Option<u64>, wm: Wm },
    DropRange { lo: BoundSpec, hi: BoundSpec },
    Clear,
    /// Bulk ingestion; `mid` are ordinary writes issued between `ingestion()` and `finish()`.
    Ingest { items: Vec<WriteItem>, mid: Vec<Vec<WriteItem>>, snap_mid: bool },
    Reopen,
    SnapOpen,
    SnapClose { i: usize },
    Scan {
        lo: BoundSpec,
        hi: BoundSpec,
        /// true = next(), false = next_back(); cycled until the iterator is exhausted
        word: Vec<bool>,
        snap: SnapSel,
        overlay: Vec<WriteItem>,
    },
    Prefix { p: Bytes, word: Vec<bool>, snap: SnapSel },
    Clock { ns: u64 },
}

impl Op {
    pub fn name(&self) -> &'static str {
        match self {
            Op::Write { items } => {
                if items.len() == 1 {
                    match items[0].kind {
                        WKind::Put => "insert",
                        WKind::Del => "remove",
                        WKind::WeakDel => "remove_weak",
                    }
                } else {
                    "batch"
                }
            }
            Op::Rotate => "rotate",
            Op::Flush { .. } => "flush",
            Op::FlushActive { .. } => "flush_active",
            Op::Leveled { .. } => "compact_leveled",
            Op::Major { .. } => "major_compact",
            Op::MoveDown { .. } => "move_down",
            Op::PullDown { .. } => "pull_down",
            Op::Fifo { .. } => "compact_fifo",
            Op::DropRange { .. } => "drop_range",
            Op::Clear => "clear",
            Op::Ingest { .. } => "ingest",
            Op::Reopen => "reopen",
            Op::SnapOpen => "snap_open",
            Op::SnapClose { .. } => "snap_close",
            Op::Scan { .. } => "scan",
            Op::Prefix { .. } => "prefix",
            Op::Clock { .. } => "clock",
        }
    }

    /// Operations that may change the durable state (used as crash/fault targets).
    pub fn is_durable_op(&self) -> bool {
        matches!(
            self,
            Op::Flush { .. }
                | Op::FlushActive { .. }
                | Op::Leveled { .. }
                | Op::Major { .. }
                | Op::MoveDown { .. }
                | Op::PullDown { .. }
                | Op::Fifo { .. }
                | Op::DropRange { .. }
                | Op::Clear
                | Op::Ingest { .. }
                | Op::Reopen
        )
    }

    pub fn short(&self) -> String {
        match self {
            Op::Write { items } => {
                let parts: Vec<String> = items
                    .iter()
                    .map(|w| match w.kind {
                        WKind::Put => format!("put {}={}", w.k.short(), w.v.short()),
                        WKind::Del => format!("del {}", w.k.short()),
                        WKind::WeakDel => format!("wdel {}", w.k.short()),
                    })
                    .collect();
                format!("write[{}]", parts.join(", "))
            }
            Op::Ingest { items, mid, .. } => {
                format!("ingest[{} items, {} mid-writes]", items.len(), mid.len())
            }
            Op::Scan {
                lo,
                hi,
                word,
                snap,
                overlay,
            } => format!(
                "scan[{lo:?}..{hi:?} word={} snap={snap:?} overlay={}]",
                word.iter().map(|&b| if b { 'f' } else { 'b' }).collect::<String>(),
                overlay.len()
            ),
            other => format!("{other:?}"),
        }
    }
}

#[derive(Clone, Debug, Serialize, Deserialize)]
pub struct RunSpec {
    pub property: String,
    pub seed: u64,
    pub cfg: CfgSpec,
    /// key universe (reads probe all of these plus never-written neighbours)
    pub keys: Vec<Bytes>,
    pub ops: Vec<Op>,
    /// engine-specific extras (fault plan, crash plan, schedule ...), free-form JSON
    #[serde(default)]
    pub extra: serde_json::Value,
}

#[derive(Clone, Debug, Serialize, Deserialize)]
pub struct ReplayFile {
    pub spec: RunSpec,
    pub violation_class: String,
    pub message: String,
    #[serde(default)]
    pub event_digest: u64,
    #[serde(default)]
    pub minimised: bool,
    #[serde(default)]
    pub original_ops: usize,
}
