//! C05 — crash at any instant. A fault-free history is executed with `simfs` journaling every
//! file-system mutation; crash images are synthesised offline from journal prefixes under
//! several persistence outcomes, and the *real* recovery is run on each image in a forked
//! grandchild. The recovered content must equal the durable logical content before or after
//! the operation that was in flight (never a mixture, never less, never unopenable).

use crate::engine::{build_config, Engine, EngineOpts, FilterLog, Violation};
use crate::model::{Loc, MKind, View};
use crate::props::PropDef;
use crate::runner::{finish_result, RunResult};
use crate::simfs::{self, CrashMode};
use crate::spec::*;
use lsm_tree::{AbstractTree, Guard, SequenceNumberCounter};
use std::path::{Path, PathBuf};
use std::sync::{Arc, Mutex};

#[derive(Clone, Debug, serde::Serialize, serde::Deserialize, Default)]
pub struct CrashPlan {
    #[serde(default)]
    pub engine: String,
    /// "sample" (quick) or "all" (thorough: every journal prefix)
    pub positions: String,
    pub sample_positions: usize,
    pub random_modes: usize,
    /// explicit (k, mode, mode_seed) list for replay; empty = derive from seed
    #[serde(default)]
    pub explicit: Vec<(usize, String, u64)>,
    /// probability (percent) of a second crash during the recovery of an image
    pub nested_percent: u64,
}

thread_local! {
    static FILES_NOTE: std::cell::RefCell<Option<String>> = const { std::cell::RefCell::new(None) };
    static TMP_LEFTOVERS: std::cell::Cell<u64> = const { std::cell::Cell::new(0) };
}

struct OpWindow {
    op_idx: usize,
    name: String,
    j_begin: usize,
    j_end: usize,
    /// durable logical contents acceptable while this op is in flight
    allowed: Vec<View>,
    /// durable logical content once the op has returned
    after: View,
}

fn open_and_dump(root: &Path, cfg: &CfgSpec) -> Result<View, String> {
    let flog: FilterLog = Arc::new(Mutex::new(Vec::new()));
    let c = build_config(
        root,
        cfg,
        SequenceNumberCounter::default(),
        SequenceNumberCounter::default(),
        None,
        &flog,
    );
    let t0 = std::time::Instant::now();
    let tree = c.open().map_err(|e| format!("open failed: {e:?}"))?;
    if std::env::var("LSMSIM_PROF").is_ok() {
        eprintln!("PROF open {:?}", t0.elapsed());
    }
    let mut out = View::new();
    for g in tree.iter(u64::MAX, None) {
        let (k, v) = g
            .into_inner()
            .map_err(|e| format!("scan after recovery failed: {e:?}"))?;
        let e = tree
            .get_internal_entry(&k, u64::MAX)
            .map_err(|e| format!("get after recovery failed: {e:?}"))?;
        let seqno = e.map_or(u64::MAX, |e| e.key.seqno);
        let pv = tree
            .get(&k, u64::MAX)
            .map_err(|e| format!("get after recovery failed: {e:?}"))?;
        if pv.as_deref() != Some(&*v) {
            return Err(format!(
                "after recovery get({}) disagrees with the scan",
                Bytes(k.to_vec()).short()
            ));
        }
        out.insert(k.to_vec(), (v.to_vec(), seqno));
    }
    if std::env::var("LSMSIM_PROF").is_ok() {
        eprintln!("PROF dump {:?}", t0.elapsed());
    }
    // C20: after a reopen the directory holds exactly what the current version names
    {
        let a = crate::audit::audit_tree(&tree);
        let ls = crate::audit::list_dir(root);
        let cur_t: std::collections::BTreeSet<String> =
            a.tables.iter().map(|t| t.id.to_string()).collect();
        let cur_b: std::collections::BTreeSet<String> =
            a.blobs.iter().map(|b| b.id.to_string()).collect();
        let cur_v: std::collections::BTreeSet<String> =
            [format!("v{}", a.version_id)].into_iter().collect();
        if ls.tables != cur_t || ls.blobs != cur_b || ls.versions != cur_v {
            FILES_NOTE.with(|n| {
                *n.borrow_mut() = Some(format!(
                    "after recovery the directory holds tables {:?} blobs {:?} versions {:?} but the recovered version {} names tables {:?} blobs {:?}",
                    ls.tables, ls.blobs, ls.versions, a.version_id, cur_t, cur_b
                ));
            });
        }
        if !ls.other.is_empty() {
            TMP_LEFTOVERS.with(|c| c.set(c.get() + 1));
        }
    }
    // the recovered tree must be usable: write, flush, read back
    let probe_seq = tree.get_highest_seqno().map_or(0, |s| s + 1);
    tree.insert("zz-crash-probe", "probe", probe_seq);
    tree.flush_active_memtable(0)
        .map_err(|e| format!("flush on the recovered tree failed: {e:?}"))?;
    match tree.get("zz-crash-probe", u64::MAX) {
        Ok(Some(v)) if &*v == b"probe" => {}
        other => {
            return Err(format!(
                "recovered tree lost a write flushed right after recovery: {other:?}"
            ))
        }
    }
    if std::env::var("LSMSIM_PROF").is_ok() {
        eprintln!("PROF probe {:?}", t0.elapsed());
    }
    Ok(out)
}

/// Checks one image in-process (a panic is caught; an abort kills the run child, in which case
/// the pool reconstructs the failing crash point from the `progress` file written beforehand).
/// Returns (0, "") if fine, (1, "class|message") otherwise.
pub fn check_image(
    img: &simfs::Image,
    dir: &Path,
    cfg: &CfgSpec,
    allowed: &[View],
    nested: Option<u64>,
) -> (i32, String) {
    let _ = std::fs::remove_dir_all(dir);
    let root = dir.join("t");
    simfs::materialize(img, root.to_str().unwrap());
    FILES_NOTE.with(|n| *n.borrow_mut() = None);
    let verdict = std::panic::catch_unwind(|| -> Result<(), String> {
        let rootstr = root.to_str().unwrap().to_string();
        if nested.is_some() {
            simfs::set_root(&rootstr);
        } else {
            simfs::clear_root();
        }
        let got = open_and_dump(&root, cfg)
            .map_err(|e| format!("unopenable/{}|{e}", why_unopenable(&root)))?;
        if !allowed.iter().any(|a| *a == got) {
            return Err(format!(
                "content|recovered content {} is none of the acceptable states {}",
                crate::engine::fmt_view(&got),
                allowed
                    .iter()
                    .map(crate::engine::fmt_view)
                    .collect::<Vec<_>>()
                    .join(" | ")
            ));
        }
        if let Some(note) = FILES_NOTE.with(|n| n.borrow_mut().take()) {
            return Err(format!("files|{note}"));
        }
        if let Some(seed) = nested {
            // second crash during / after that recovery (the probe write is part of it)
            let j = simfs::journal();
            simfs::clear_root();
            if !j.events.is_empty() {
                let mut r = crate::rng::Rng::new(seed);
                let k = 1 + r.usize(j.events.len());
                let mode = match r.below(3) {
                    0 => CrashMode::Strict,
                    1 => CrashMode::Lucky,
                    _ => CrashMode::Random(r.next_u64()),
                };
                let (img2, _) = simfs::crash_image(&j, k, mode);
                let root2 = dir.join("t2");
                simfs::materialize(&img2, root2.to_str().unwrap());
                let got2 = open_and_dump(&root2, cfg).map_err(|e| {
                    format!(
                        "unopenable-after-crash-in-recovery/{}|{e} (second crash at recovery event {k} of {} mode {mode:?}; event: {})",
                        why_unopenable(&root2),
                        j.events.len(),
                        simfs::describe(&j.events[k - 1].ev)
                    )
                })?;
                if let Some(note) = FILES_NOTE.with(|n| n.borrow_mut().take()) {
                    return Err(format!("files|(after a second crash during recovery) {note}"));
                }
                // the probe key may or may not have survived the second crash
                let mut g2 = got2.clone();
                g2.remove(b"zz-crash-probe".as_slice());
                if !allowed.iter().any(|a| *a == g2) {
                    return Err(format!(
                        "content-after-crash-in-recovery|content {} after a second crash at recovery event {k} ({mode:?}) is none of the acceptable states",
                        crate::engine::fmt_view(&g2)
                    ));
                }
            }
        }
        Ok(())
    });
    simfs::clear_root();
    let r = match verdict {
        Ok(Ok(())) => (0, String::new()),
        Ok(Err(m)) => (1, m),
        Err(_) => (
            1,
            format!("panic|recovery panicked: {}", crate::runner::take_panic_msg()),
        ),
    };
    let _ = std::fs::remove_dir_all(dir);
    r
}

fn mode_name(m: CrashMode) -> &'static str {
    match m {
        CrashMode::Strict => "strict",
        CrashMode::Lucky => "lucky",
        CrashMode::OrderedPrefix(_) => "ordered_prefix",
        CrashMode::Random(_) => "random",
    }
}

pub fn default_plan(tier: &str) -> CrashPlan {
    if tier == "thorough" {
        CrashPlan {
            engine: "crash".into(),
            positions: "all".into(),
            sample_positions: 0,
            random_modes: 4,
            explicit: vec![],
            nested_percent: 25,
        }
    } else {
        CrashPlan {
            engine: "crash".into(),
            positions: "sample".into(),
            sample_positions: 10,
            random_modes: 2,
            explicit: vec![],
            nested_percent: 25,
        }
    }
}

pub fn run_crash(prop: &PropDef, spec: &RunSpec, workdir: &Path, index: u64) -> RunResult {
    let plan: CrashPlan = serde_json::from_value(spec.extra.clone()).unwrap_or_default();
    let opts = EngineOpts {
        decisive: prop.decisive.iter().map(|s| (*s).to_string()).collect(),
        full_checks: false,
        final_reclaim_phase: false,
    };
    let root: PathBuf = workdir.join("t");
    // the tree directory itself belongs to the caller: created and durable before open
    std::fs::create_dir_all(&root).expect("mkdir root");
    simfs::set_root(root.to_str().unwrap());
    let mut e = Engine::new(spec.clone(), root.clone(), opts, None);
    let mut windows: Vec<OpWindow> = Vec::new();
    let mut evaluations = 0u64;
    // model before op i (index i) and after the last op (index n): used to continue the
    // history on a recovered crash image
    let mut models: Vec<crate::model::Model> = Vec::new();

    let outcome = std::panic::catch_unwind(std::panic::AssertUnwindSafe(
        || -> Result<(), Violation> {
            // phase 1: execute the history, recording for every op its journal window and the
            // durable logical content before / after (and at documented intermediate points)
            let before0 = View::new();
            let jb = simfs::journal_len();
            e.open()?;
            windows.push(OpWindow {
                op_idx: usize::MAX,
                name: "create".into(),
                j_begin: jb,
                j_end: simfs::journal_len(),
                allowed: vec![before0.clone()],
                after: before0,
            });
            let ops = e.spec.ops.clone();
            for (i, op) in ops.iter().enumerate() {
                models.push(e.model.clone());
                let before = e.model.durable_view();
                let mut allowed = vec![before.clone()];
                if let Op::Ingest { items, mid, .. } = op {
                    if !items.is_empty() {
                        // finish() first flushes the memtables (incl. the mid writes), then
                        // registers the ingested tables: two durable steps
                        let mut m = e.model.clone();
                        let mut s = e.seqno.get();
                        for b in mid {
                            m.tick();
                            for w in b {
                                let kind = match w.kind {
                                    WKind::Put => MKind::Value(w.v.0.clone()),
                                    WKind::Del => MKind::Tomb,
                                    WKind::WeakDel => MKind::WeakTomb,
                                };
                                m.write(&w.k.0, s, kind, Loc::Active);
                            }
                            s += 1;
                        }
                        m.rotate();
                        m.flush_sealed();
                        allowed.push(m.durable_view());
                    }
                }
                let jb = simfs::journal_len();
                e.step(op)?;
                let je = simfs::journal_len();
                let after = e.model.durable_view();
                if !allowed.contains(&after) {
                    allowed.push(after.clone());
                }
                if je > jb {
                    windows.push(OpWindow {
                        op_idx: i,
                        name: op.name().to_string(),
                        j_begin: jb,
                        j_end: je,
                        allowed,
                        after,
                    });
                }
            }
            models.push(e.model.clone());
            Ok(())
        },
    ));
    let outcome = match outcome {
        Ok(o) => o,
        Err(_) => {
            let msg = crate::runner::take_panic_msg();
            Err(Violation {
                tag: "panic".into(),
                class: crate::runner::panic_class(&msg),
                msg: format!("panic during op #{}: {msg}", e.op_idx),
                at_op: e.op_idx,
            })
        }
    };
    let final_view = e.model.durable_view();
    let journal = simfs::journal();
    let mut stats = e.stats.clone();
    simfs::clear_root();
    std::mem::forget(e);
    if outcome.is_err() {
        return finish_result(prop, spec, index, &stats, outcome, 1);
    }

    // phase 2: crash images
    let n = journal.events.len();
    stats.add("journal_events", n as u64);
    let mut rng = crate::rng::Rng::new(crate::rng::mix(&[spec.seed, 0xC4A5]));
    let mut positions: Vec<usize> = if !plan.explicit.is_empty() {
        vec![]
    } else if plan.positions == "all" {
        (0..=n).collect()
    } else {
        // 80% inside an operation, 20% at boundaries
        let mut v = Vec::new();
        for _ in 0..plan.sample_positions {
            if windows.is_empty() || n == 0 {
                break;
            }
            let w = &windows[rng.usize(windows.len())];
            if rng.chance(4, 5) && w.j_end > w.j_begin + 1 {
                v.push(w.j_begin + 1 + rng.usize(w.j_end - w.j_begin - 1));
            } else {
                v.push(w.j_end);
            }
        }
        v.sort_unstable();
        v.dedup();
        v
    };
    let mut jobs: Vec<(usize, CrashMode)> = Vec::new();
    for (k, m, s) in &plan.explicit {
        let mode = match m.as_str() {
            "strict" => CrashMode::Strict,
            "lucky" => CrashMode::Lucky,
            "ordered_prefix" => CrashMode::OrderedPrefix(*s as usize),
            _ => CrashMode::Random(*s),
        };
        jobs.push((*k, mode));
    }
    for &k in &positions {
        jobs.push((k, CrashMode::Strict));
        jobs.push((k, CrashMode::Lucky));
        if k > 0 {
            jobs.push((k, CrashMode::OrderedPrefix(rng.usize(k + 1))));
        }
        for _ in 0..plan.random_modes {
            jobs.push((k, CrashMode::Random(rng.next_u64())));
        }
    }
    positions.clear();

    let allowed_at = |k: usize| -> (Vec<View>, String) {
        // an op is in flight at k iff j_begin < k < j_end; at k == j_end it has returned
        for w in &windows {
            if k > w.j_begin && k < w.j_end {
                return (w.allowed.clone(), format!("during {} (op #{})", w.name, w.op_idx as i64));
            }
        }
        // between operations: exactly the content after the last completed window
        let mut last: Option<&OpWindow> = None;
        for w in &windows {
            if w.j_end <= k {
                last = Some(w);
            }
        }
        match last {
            Some(w) => (
                vec![w.after.clone()],
                format!("after {} (op #{}) returned", w.name, w.op_idx as i64),
            ),
            None => (vec![View::new()], "before the tree was created".into()),
        }
    };
    let _ = final_view;

    let mut result: Result<(), Violation> = Ok(());
    let mut image_hashes = std::collections::BTreeSet::new();
    for (k, mode) in jobs {
        let (img, info) = simfs::crash_image(&journal, k, mode);
        evaluations += 1;
        stats.inc(&format!("crash_mode_{}", mode_name(mode)));
        stats.inc("crash_images_opened");
        if info.pending_dirent_ops + info.pending_data_writes > 0 {
            stats.inc("crash_images_with_pending_effects");
        }
        if info.torn_writes > 0 {
            stats.inc("fault_fired_torn_write");
        }
        if info.zero_extended > 0 {
            stats.inc("fault_fired_size_without_data");
        }
        if info.dirent_ops_dropped > 0 {
            stats.inc("fault_fired_lost_dirent");
        }
        if info.data_writes_dropped > 0 {
            stats.inc("fault_fired_lost_data");
        }
        let (allowed, where_) = allowed_at(k);
        let nested = if rng.below(100) < plan.nested_percent {
            stats.inc("crash_during_recovery_attempts");
            Some(rng.next_u64())
        } else {
            None
        };
        let h = {
            let mut s = String::new();
            for (p, d) in &img.files {
                let p = if p.contains(".tmp") { ".tmp#" } else { p.as_str() };
                s.push_str(&format!("{p}:{}:{};", d.len(), crate::rng::hash_bytes(d)));
            }
            crate::rng::hash_bytes(s.as_bytes())
        };
        if info.pending_dirent_ops + info.pending_data_writes > 0 {
            image_hashes.insert(h);
        }
        let dir = workdir.join("img");
        let seed_part = match mode {
            CrashMode::Random(s) => s,
            CrashMode::OrderedPrefix(c) => c as u64,
            _ => 0,
        };
        let _ = std::fs::write(
            workdir.join("progress"),
            format!("crashpoint {k} {} {seed_part}", mode_name(mode)),
        );
        let (code, msg) = check_image(&img, &dir, &spec.cfg, &allowed, nested);
        if code != 0 {
            let (cls, text) = msg.split_once('|').unwrap_or(("recovery", msg.as_str()));
            let detail = classify_image(&img, &journal, k, &info);
            if cls == "files" && !prop.decisive.contains(&"files") {
                // the reclamation clause belongs to C20: observe, keep going
                stats.inc("obs:files/after-crash-recovery (files)");
                continue;
            }
            result = Err(Violation {
                tag: if cls == "files" { "files".into() } else { "crash".into() },
                class: if cls == "files" {
                    "files/after-crash-recovery".to_string()
                } else if cls.starts_with("unopenable") {
                    format!("crash/{cls}")
                } else {
                    format!("crash/{cls}/{detail}")
                },
                msg: format!(
                    "crash at journal event {k}/{n} ({where_}; event: {}) under outcome {mode:?}: {text} [pending dirent ops {} (dropped {}), pending data writes {} (dropped {}, torn {}), deviating names {:?}]",
                    if k > 0 { simfs::describe(&journal.events[k - 1].ev) } else { "<none>".into() },
                    info.pending_dirent_ops, info.dirent_ops_dropped, info.pending_data_writes, info.data_writes_dropped, info.torn_writes, info.deviating_names.iter().map(|n| norm_name(n)).collect::<Vec<_>>()
                ),
                at_op: windows
                    .iter()
                    .find(|w| k > w.j_begin && k <= w.j_end)
                    .map_or(0, |w| if w.op_idx == usize::MAX { 0 } else { w.op_idx }),
            });
            // make the failing image reproducible from the replay file
            stats.counters.insert("failing_k".into(), k as u64);
            stats.log.push(format!("FAIL k={k} mode={} seed={seed_part}", mode_name(mode)));
            break;
        }
    }
    // One crash per run is followed through: the rest of the history is executed on the
    // recovered directory with every oracle armed ("it can immediately be written, flushed and
    // compacted again").
    if result.is_ok() && plan.explicit.is_empty() && !windows.is_empty() && models.len() == spec.ops.len() + 1 {
        let w = &windows[rng.usize(windows.len())];
        if w.op_idx != usize::MAX && w.j_end > w.j_begin {
            let k = w.j_begin + 1 + rng.usize(w.j_end - w.j_begin);
            let mode = match rng.below(3) {
                0 => CrashMode::Strict,
                1 => CrashMode::Lucky,
                _ => CrashMode::Random(rng.next_u64()),
            };
            let (img, _) = simfs::crash_image(&journal, k, mode);
            let dir = workdir.join("cont");
            let _ = std::fs::remove_dir_all(&dir);
            let root2 = dir.join("t");
            simfs::materialize(&img, root2.to_str().unwrap());
            let i = w.op_idx;
            let r = std::panic::catch_unwind(std::panic::AssertUnwindSafe(|| -> Result<(), Violation> {
                let opts = EngineOpts {
                    decisive: prop.decisive.iter().map(|s| (*s).to_string()).collect(),
                    full_checks: true,
                    final_reclaim_phase: false,
                };
                let mut e2 = Engine::new(spec.clone(), root2.clone(), opts, None);
                e2.open()?;
                let got = e2.dump(u64::MAX)?;
                // which of the acceptable states did recovery produce?
                let mut before_m = models[i].clone();
                before_m.lose_memtables();
                let mut after_m = models[i + 1].clone();
                after_m.lose_memtables();
                let (model, from) = if got == after_m.durable_view() && k == w.j_end {
                    (after_m, i + 1)
                } else if got == before_m.durable_view() {
                    (before_m, i)
                } else if got == after_m.durable_view() {
                    (after_m, i + 1)
                } else {
                    // an intermediate state (ingestion) or a mismatch that the image check above
                    // has already judged: nothing to continue from
                    return Ok(());
                };
                e2.model = model;
                let next = e2.tree().get_highest_seqno().map_or(0, |h| h + 1);
                e2.seqno.set(next);
                e2.visible.set(next);
                e2.model.tick();
                let present = crate::audit::audit_tree(e2.tree()).present_pairs();
                e2.model.resync_physical(|_| true, &present);
                e2.check_reads()?;
                for op in &spec.ops[from..] {
                    e2.step(op)?;
                }
                e2.step(&Op::Reopen)?;
                std::mem::forget(e2);
                Ok(())
            }));
            stats.inc("crash_histories_continued_after_recovery");
            match r {
                Ok(Ok(())) => {}
                Ok(Err(v)) if v.tag == "structure" || v.tag == "gc_stats" || v.tag == "seqno" || v.tag == "files" => {
                    stats.inc(&format!("obs:{} ({})", v.class, v.tag));
                }
                Ok(Err(v)) => {
                    let seed_part = match mode {
                        CrashMode::Random(s) => s,
                        _ => 0,
                    };
                    result = Err(Violation {
                        tag: "crash".into(),
                        class: format!("crash/continued-after-recovery/{}", v.class),
                        msg: format!(
                            "after a crash at journal event {k} ({mode:?}; during {} (op #{i})) and recovery, continuing the history fails: {}",
                            w.name, v.msg
                        ),
                        at_op: v.at_op,
                    });
                    stats.log.push(format!("FAILCONT k={k} mode={} seed={seed_part}", mode_name(mode)));
                }
                Err(_) => {
                    let msg = crate::runner::take_panic_msg();
                    result = Err(Violation {
                        tag: "crash".into(),
                        class: format!("crash/continued-after-recovery/{}", crate::runner::panic_class(&msg)),
                        msg: format!("after a crash at journal event {k} ({mode:?}) and recovery, continuing the history panics: {msg}"),
                        at_op: i,
                    });
                }
            }
            let _ = std::fs::remove_dir_all(&dir);
        }
    }
    stats.add("probe_leftover_tmp_files", TMP_LEFTOVERS.with(std::cell::Cell::get));
    stats.states.extend(image_hashes.iter().copied());
    let mut res = finish_result(prop, spec, index, &stats, result.clone(), evaluations.max(1));
    if let (Err(_), Some(s)) = (&result, res.spec.as_mut()) {
        // pin the failing crash point into the replay spec
        if let Some(l) = stats.log.iter().rev().find(|l| l.starts_with("FAIL ")) {
            let parts: Vec<&str> = l.split_whitespace().collect();
            let k: usize = parts[1][2..].parse().unwrap_or(0);
            let mode = parts[2][5..].to_string();
            let seed: u64 = parts[3][5..].parse().unwrap_or(0);
            let mut p = plan.clone();
            p.explicit = vec![(k, mode, seed)];
            p.nested_percent = 0;
            s.extra = serde_json::to_value(&p).unwrap();
        }
    }
    // non-trivial images (pending effects existed) counted distinctly
    res.nontrivial_digests = image_hashes.into_iter().collect();
    res
}

fn norm_name(n: &str) -> String {
    if n.contains(".tmp") {
        ".tmp#".into()
    } else if let Some((d, f)) = n.rsplit_once('/') {
        if f.chars().all(|c| c.is_ascii_digit()) {
            format!("{d}/<id>")
        } else {
            n.to_string()
        }
    } else if n.starts_with('v') && n[1..].chars().all(|c| c.is_ascii_digit()) {
        "v<N>".into()
    } else {
        n.to_string()
    }
}

/// Structural signature of what the image lacks relative to the live state: which kind of
/// name deviates (so that known findings are matched by file kind, not by seed).
fn classify_image(
    _img: &simfs::Image,
    _j: &simfs::Journal,
    _k: usize,
    info: &simfs::ImageInfo,
) -> String {
    let mut kinds: std::collections::BTreeSet<String> = std::collections::BTreeSet::new();
    for n in &info.deviating_names {
        kinds.insert(norm_name(n));
    }
    if kinds.is_empty() {
        if info.data_writes_dropped > 0 || info.torn_writes > 0 {
            "data-only".into()
        } else {
            "no-deviation".into()
        }
    } else {
        kinds.into_iter().collect::<Vec<_>>().join(",")
    }
}

/// Names what the image lacks from the point of view of the version `current` points to
/// (a structural signature for findings: which *kind* of file recovery could not find).
fn why_unopenable(root: &Path) -> String {
    simfs::bypass(|| {
        if !root.join("current").exists() {
            return "no-current".to_string();
        }
        match lsm_tree::verif::decode_current_version(root) {
            Err(_) => "version-file-undecodable".to_string(),
            Ok(d) => {
                let mut kinds = std::collections::BTreeSet::new();
                for t in d.levels.iter().flatten().flatten() {
                    if !root.join("tables").join(t.0.to_string()).exists() {
                        kinds.insert("missing-table-file");
                    }
                }
                for b in &d.blob_files {
                    if !root.join("blobs").join(b.0.to_string()).exists() {
                        kinds.insert("missing-blob-file");
                    }
                }
                if kinds.is_empty() {
                    "all-named-files-present".to_string()
                } else {
                    kinds.into_iter().collect::<Vec<_>>().join("+")
                }
            }
        }
    })
}
