//! The interleaving seam: a baton scheduler over real threads, plus the simulated clock and
//! the reach-probe counters (all three are what `lsm_tree::verif::Hooks` calls back into).
//!
//! Exactly one sim-thread holds the baton. A thread hands it back at yield sites (lock probes,
//! sequence-counter and memtable primitives, optionally every file-system call, and actor-level
//! points); the PRNG picks who continues. Real `std::sync` locks never block: the probe before
//! each acquisition spins on `try_lock` and parks the thread in `blocked()` until another thread
//! has made progress.

use crate::rng::Rng;
use std::collections::BTreeMap;
use std::sync::atomic::{AtomicBool, AtomicU64, Ordering};
use std::sync::{Condvar, Mutex};
use std::time::Duration;

thread_local! {
    static TID: std::cell::Cell<u32> = const { std::cell::Cell::new(0) };
    static NO_YIELD: std::cell::Cell<u32> = const { std::cell::Cell::new(0) };
}

/// Runs `f` without scheduling points (harness-level atomic sections such as "read the
/// visible seqno and register the snapshot", which the documented protocol performs under the
/// caller's own snapshot-tracker lock).
pub fn no_yield<T>(f: impl FnOnce() -> T) -> T {
    NO_YIELD.with(|c| c.set(c.get() + 1));
    let r = f();
    NO_YIELD.with(|c| c.set(c.get() - 1));
    r
}

fn yields_disabled() -> bool {
    NO_YIELD.with(std::cell::Cell::get) > 0
}

pub fn current_thread_id() -> u32 {
    TID.with(std::cell::Cell::get)
}

#[derive(Clone, Copy, PartialEq, Eq, Debug)]
enum Status {
    NotStarted,
    Runnable,
    Blocked { at_progress: u64 },
    Finished,
}

#[derive(Clone, Debug)]
pub enum Policy {
    Random,
    /// PCT-style: random priorities, `change_points` (step numbers) at which the running
    /// thread drops to the lowest priority.
    Pct { change_points: Vec<u64> },
}

struct State {
    active: bool,
    current: u32, // 0 = controller
    status: Vec<Status>, // index = tid (1-based), [0] unused
    prio: Vec<u64>,
    low_prio_next: u64,
    rng: Rng,
    policy: Policy,
    step: u64,
    progress: u64,
    decisions: Vec<u8>,
    replay: Option<Vec<u8>>,
    replay_pos: usize,
    trace_hash: u64,
    proj_hash: u64,
    switches: u64,
    site_counts: BTreeMap<&'static str, u64>,
    deadlock: Option<String>,
    diverged: bool,
    max_steps: u64,
    step_limit_hit: bool,
    last_site: Vec<&'static str>,
}

static STATE: Mutex<Option<State>> = Mutex::new(None);
const MAX_THREADS: usize = 32;
static CVS: [Condvar; MAX_THREADS] = [const { Condvar::new() }; MAX_THREADS];

fn wake(tid: u32) {
    CVS[tid as usize % MAX_THREADS].notify_all();
}

fn wake_everyone() {
    for c in &CVS {
        c.notify_all();
    }
}
static ACTIVE: AtomicBool = AtomicBool::new(false);
static STEP_CLOCK: AtomicU64 = AtomicU64::new(0);

pub struct SchedReport {
    pub steps: u64,
    pub switches: u64,
    pub decisions: Vec<u8>,
    pub trace_hash: u64,
    pub proj_hash: u64,
    pub site_counts: BTreeMap<&'static str, u64>,
    pub deadlock: Option<String>,
    pub diverged: bool,
    pub step_limit_hit: bool,
}

fn site_class(site: &'static str) -> &'static str {
    // project "file:lock.kind#n" to "lock.kind", keep fs:/seqno./memtable./actor: as is
    if let Some(i) = site.find(':') {
        let rest = &site[i + 1..];
        if site.starts_with("fs:") || site.starts_with("actor:") {
            return site;
        }
        if let Some(j) = rest.find('#') {
            return &rest[..j];
        }
        return rest;
    }
    site
}

impl State {
    fn eligible(&self, tid: u32) -> bool {
        match self.status[tid as usize] {
            Status::Runnable | Status::NotStarted => true,
            Status::Blocked { at_progress } => self.progress > at_progress,
            Status::Finished => false,
        }
    }

    fn live(&self) -> Vec<u32> {
        (1..self.status.len() as u32)
            .filter(|&t| self.status[t as usize] != Status::Finished)
            .collect()
    }

    /// Picks the next thread to run; `None` if nobody can run.
    fn pick(&mut self) -> Option<u32> {
        let cands: Vec<u32> = (1..self.status.len() as u32)
            .filter(|&t| self.eligible(t))
            .collect();
        if cands.is_empty() {
            return None;
        }
        let choice = if let Some(rp) = &self.replay {
            let want = rp.get(self.replay_pos).copied();
            self.replay_pos += 1;
            match want {
                Some(w) if cands.contains(&u32::from(w)) => u32::from(w),
                _ => {
                    self.diverged = true;
                    cands[0]
                }
            }
        } else {
            match &self.policy {
                Policy::Random => cands[self.rng.usize(cands.len())],
                Policy::Pct { .. } => *cands
                    .iter()
                    .max_by_key(|&&t| self.prio[t as usize])
                    .unwrap(),
            }
        };
        self.decisions.push(choice as u8);
        Some(choice)
    }

    fn note(&mut self, tid: u32, site: &'static str) {
        self.step += 1;
        STEP_CLOCK.store(self.step, Ordering::Relaxed);
        *self.site_counts.entry(site_class(site)).or_insert(0) += 1;
        self.last_site[tid as usize] = site;
        let mut x = self.trace_hash ^ crate::rng::hash_bytes(site.as_bytes()) ^ u64::from(tid);
        self.trace_hash = crate::rng::splitmix64(&mut x);
        let mut y = self.proj_hash
            ^ crate::rng::hash_bytes(site_class(site).as_bytes())
            ^ u64::from(tid).wrapping_mul(0x9E37_79B9);
        self.proj_hash = crate::rng::splitmix64(&mut y);
        if let Policy::Pct { change_points } = &self.policy {
            if change_points.contains(&self.step) {
                self.prio[tid as usize] = self.low_prio_next;
                self.low_prio_next = self.low_prio_next.saturating_sub(1);
            }
        }
        if self.step >= self.max_steps {
            self.step_limit_hit = true;
        }
    }
}

/// Hands the baton to `next` and parks the caller until it is chosen again.
fn switch_and_wait(mut g: std::sync::MutexGuard<'_, Option<State>>, me: u32, next: u32) {
    {
        let st = g.as_mut().unwrap();
        if next != me {
            st.switches += 1;
        }
        st.current = next;
    }
    if next == me {
        return;
    }
    wake(next);
    loop {
        g = CVS[me as usize % MAX_THREADS].wait(g).unwrap();
        match g.as_ref() {
            Some(st) if st.current == me => return,
            Some(_) => {}
            None => return,
        }
    }
}

pub fn yield_point(site: &'static str) {
    if !ACTIVE.load(Ordering::Relaxed) {
        return;
    }
    let me = current_thread_id();
    if me == 0 || yields_disabled() {
        return;
    }
    let mut g = STATE.lock().unwrap();
    let Some(st) = g.as_mut() else { return };
    if !st.active {
        return;
    }
    st.note(me, site);
    st.progress += 1;
    st.status[me as usize] = Status::Runnable;
    if st.step_limit_hit {
        // beyond the step budget: stop preempting, let everyone run to completion in
        // round-robin order so the run terminates
        return;
    }
    let next = st.pick().unwrap_or(me);
    switch_and_wait(g, me, next);
}

pub fn blocked(site: &'static str) {
    if !ACTIVE.load(Ordering::Relaxed) {
        std::thread::yield_now();
        return;
    }
    let me = current_thread_id();
    if me == 0 {
        std::thread::yield_now();
        return;
    }
    let mut g = STATE.lock().unwrap();
    let Some(st) = g.as_mut() else { return };
    if !st.active {
        return;
    }
    st.note(me, site);
    st.status[me as usize] = Status::Blocked {
        at_progress: st.progress,
    };
    let next = match st.pick() {
        Some(n) => n,
        None => {
            // everybody is blocked and nobody made progress: deadlock
            let desc = st
                .live()
                .iter()
                .map(|&t| format!("t{t}@{}", st.last_site[t as usize]))
                .collect::<Vec<_>>()
                .join(" ");
            st.deadlock = Some(desc);
            st.active = false;
            st.current = 0;
            drop(g);
            wake_everyone();
            // park forever; the controller reports the deadlock and exits the process
            loop {
                std::thread::sleep(Duration::from_secs(3600));
            }
        }
    };
    switch_and_wait(g, me, next);
}

/// Yield site owned by simfs (every interposed mutating call of a sim-thread).
pub fn fs_yield(site: &'static str) {
    yield_point(site);
}

pub struct Controller {
    handles: Vec<std::thread::JoinHandle<()>>,
    n: u32,
}

impl Controller {
    pub fn new(
        n_threads: u32,
        rng: Rng,
        policy: Policy,
        replay: Option<Vec<u8>>,
        max_steps: u64,
    ) -> Self {
        let mut rng = rng;
        let mut prio = vec![0u64; n_threads as usize + 1];
        for p in prio.iter_mut().skip(1) {
            *p = 1_000 + rng.below(1_000_000);
        }
        let st = State {
            active: false,
            current: 0,
            status: vec![Status::NotStarted; n_threads as usize + 1],
            prio,
            low_prio_next: 999,
            rng,
            policy,
            step: 0,
            progress: 0,
            decisions: Vec::new(),
            replay,
            replay_pos: 0,
            trace_hash: 0,
            proj_hash: 0,
            switches: 0,
            site_counts: BTreeMap::new(),
            deadlock: None,
            diverged: false,
            max_steps,
            step_limit_hit: false,
            last_site: vec!["<start>"; n_threads as usize + 1],
        };
        *STATE.lock().unwrap() = Some(st);
        Self {
            handles: Vec::new(),
            n: n_threads,
        }
    }

    /// Registers sim-thread `tid` (1-based). The thread starts parked.
    pub fn spawn(&mut self, tid: u32, f: impl FnOnce() + Send + 'static) {
        assert!(tid >= 1 && tid <= self.n);
        let h = std::thread::Builder::new()
            .name(format!("sim-{tid}"))
            .stack_size(4 << 20)
            .spawn(move || {
                TID.with(|c| c.set(tid));
                // wait for the baton
                {
                    let mut g = STATE.lock().unwrap();
                    loop {
                        match g.as_ref() {
                            Some(st) if st.active && st.current == tid => break,
                            Some(st) if st.deadlock.is_some() => return,
                            _ => {}
                        }
                        g = CVS[tid as usize % MAX_THREADS].wait(g).unwrap();
                    }
                }
                let result = std::panic::catch_unwind(std::panic::AssertUnwindSafe(f));
                // finished: pass the baton on
                let mut g = STATE.lock().unwrap();
                if let Some(st) = g.as_mut() {
                    st.status[tid as usize] = Status::Finished;
                    st.progress += 1;
                    if st.active {
                        let next = st.pick().unwrap_or(0);
                        if next == 0 && !st.live().is_empty() {
                            // remaining threads are all blocked with nobody to unblock them
                            let desc = st
                                .live()
                                .iter()
                                .map(|&t| format!("t{t}@{}", st.last_site[t as usize]))
                                .collect::<Vec<_>>()
                                .join(" ");
                            st.deadlock = Some(desc);
                            st.active = false;
                        }
                        st.current = next;
                    }
                }
                let next = g.as_ref().map_or(0, |st| st.current);
                let dead = g.as_ref().is_some_and(|st| st.deadlock.is_some());
                drop(g);
                if dead {
                    wake_everyone();
                } else {
                    wake(next);
                    wake(0);
                }
                if let Err(p) = result {
                    std::panic::resume_unwind(p);
                }
            })
            .expect("spawn sim thread");
        self.handles.push(h);
    }

    /// Runs all registered threads to completion under the scheduler. Returns the report and
    /// the list of thread ids that panicked.
    pub fn run(self) -> (SchedReport, Vec<u32>) {
        ACTIVE.store(true, Ordering::SeqCst);
        {
            let mut g = STATE.lock().unwrap();
            let st = g.as_mut().unwrap();
            st.active = true;
            let first = st.pick().unwrap_or(0);
            st.current = first;
        }
        wake_everyone();
        // wait for completion, with a wall-clock watchdog for unprobed blocking
        let mut last_step = 0u64;
        let mut idle_rounds = 0u32;
        loop {
            let g = STATE.lock().unwrap();
            let (g, _timeout) = CVS[0].wait_timeout(g, Duration::from_millis(500)).unwrap();
            let st = g.as_ref().unwrap();
            if st.deadlock.is_some() {
                break;
            }
            if st.live().is_empty() {
                break;
            }
            let s = STEP_CLOCK.load(Ordering::Relaxed);
            if s == last_step {
                idle_rounds += 1;
                if idle_rounds > 60 {
                    eprintln!(
                        "HARNESS-ERROR sched: no scheduling step for 30 s (unprobed blocking?) current=t{} sites={:?}",
                        st.current, st.last_site
                    );
                    unsafe { libc::_exit(2) };
                }
            } else {
                idle_rounds = 0;
                last_step = s;
            }
        }
        ACTIVE.store(false, Ordering::SeqCst);
        let deadlocked = STATE
            .lock()
            .unwrap()
            .as_ref()
            .is_some_and(|s| s.deadlock.is_some());
        let mut panicked = Vec::new();
        if !deadlocked {
            for (i, h) in self.handles.into_iter().enumerate() {
                if h.join().is_err() {
                    panicked.push(i as u32 + 1);
                }
            }
        }
        let st = STATE.lock().unwrap().take().unwrap();
        (
            SchedReport {
                steps: st.step,
                switches: st.switches,
                decisions: st.decisions,
                trace_hash: st.trace_hash,
                proj_hash: st.proj_hash,
                site_counts: st.site_counts,
                deadlock: st.deadlock,
                diverged: st.diverged,
                step_limit_hit: st.step_limit_hit,
            },
            panicked,
        )
    }
}

//
// Simulated clock
//

static CLOCK_ON: AtomicBool = AtomicBool::new(false);
static CLOCK_NS_LO: AtomicU64 = AtomicU64::new(0);
static CLOCK_START: AtomicU64 = AtomicU64::new(0);

/// Simulated epoch: 2026-01-01T00:00:00Z in seconds.
pub const EPOCH_S: u64 = 1_767_225_600;

pub fn clock_enable() {
    CLOCK_ON.store(true, Ordering::SeqCst);
    CLOCK_NS_LO.store(0, Ordering::SeqCst);
    CLOCK_START.store(0, Ordering::SeqCst);
}

pub fn clock_advance(nanos: u64) {
    CLOCK_NS_LO.fetch_add(nanos, Ordering::SeqCst);
}

/// Nanoseconds since the simulated epoch.
pub fn clock_now_ns() -> u64 {
    CLOCK_NS_LO.load(Ordering::SeqCst)
}

//
// Reach probes
//

static REACH: Mutex<BTreeMap<&'static str, u64>> = Mutex::new(BTreeMap::new());

pub fn reach(name: &'static str) {
    if let Ok(mut g) = REACH.lock() {
        *g.entry(name).or_insert(0) += 1;
    }
}

pub fn reach_counts() -> BTreeMap<&'static str, u64> {
    REACH.lock().map(|g| g.clone()).unwrap_or_default()
}

//
// Hook object installed into lsm-tree
//

pub struct SimHooks;

impl lsm_tree::verif::Hooks for SimHooks {
    fn yield_point(&self, site: &'static str) {
        yield_point(site);
    }

    fn blocked(&self, site: &'static str) {
        blocked(site);
    }

    fn now(&self) -> Option<Duration> {
        if CLOCK_ON.load(Ordering::Relaxed) {
            Some(Duration::from_secs(EPOCH_S) + Duration::from_nanos(clock_now_ns()))
        } else {
            None
        }
    }

    fn reach(&self, name: &'static str) {
        reach(name);
    }
}

static HOOKS: SimHooks = SimHooks;

pub fn install_hooks() {
    lsm_tree::verif::install(&HOOKS);
}
