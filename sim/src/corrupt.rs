//! C10 — stored-byte faults. A small tree is built by a fault-free history, every question is
//! asked and the answers recorded; the tree is closed. Then, one fault at a time, a copy of the
//! directory gets one bit flipped or one file truncated, is reopened with an empty cache and
//! re-asked everything. Each answer must be an error or the original answer.

use crate::engine::{build_config, Engine, EngineOpts, FilterLog, Violation};
use crate::props::PropDef;
use crate::runner::{finish_result, RunResult};
use crate::simfs;
use crate::spec::*;
use lsm_tree::{AbstractTree, Guard, SequenceNumberCounter};
use std::collections::BTreeMap;
use std::path::{Path, PathBuf};
use std::sync::{Arc, Mutex};

#[derive(Clone, Debug, serde::Serialize, serde::Deserialize, Default)]
pub struct CorruptSpec {
    /// "sample" or "all"
    pub mode: String,
    /// explicit attempts for replay: (relative file, "flip"|"trunc", offset_or_len, bit)
    #[serde(default)]
    pub explicit: Vec<(String, String, u64, u8)>,
}

pub fn default_plan(tier: &str) -> CorruptSpec {
    CorruptSpec {
        mode: if tier == "thorough" { "all" } else { "sample" }.into(),
        explicit: vec![],
    }
}

type Answer = Result<Vec<u8>, ()>;

/// All questions, in a fixed order; each answered individually (Ok(bytes) or Err).
fn ask(root: &Path, cfg: &CfgSpec, keys: &[Vec<u8>], seqnos: &[u64]) -> Result<Vec<Answer>, String> {
    let flog: FilterLog = Arc::new(Mutex::new(Vec::new()));
    let c = build_config(
        root,
        cfg,
        SequenceNumberCounter::default(),
        SequenceNumberCounter::default(),
        None,
        &flog,
    );
    let tree = c.open().map_err(|e| format!("{e:?}"))?;
    let mut out: Vec<Answer> = Vec::new();
    let enc = |v: Option<Vec<u8>>| -> Vec<u8> {
        match v {
            Some(mut v) => {
                v.insert(0, 1);
                v
            }
            None => vec![0],
        }
    };
    for &s in seqnos {
        for k in keys {
            out.push(tree.get(k, s).map(|v| enc(v.map(|x| x.to_vec()))).map_err(|_| ()));
            out.push(
                tree.size_of(k, s)
                    .map(|v| enc(v.map(|x| x.to_le_bytes().to_vec())))
                    .map_err(|_| ()),
            );
        }
        // forward scan
        let mut fw: Answer = Ok(Vec::new());
        for g in tree.iter(s, None) {
            match g.into_inner() {
                Ok((k, v)) => {
                    if let Ok(b) = fw.as_mut() {
                        b.extend_from_slice(&(k.len() as u32).to_le_bytes());
                        b.extend_from_slice(&k);
                        b.extend_from_slice(&(v.len() as u32).to_le_bytes());
                        b.extend_from_slice(&v);
                    }
                }
                Err(_) => {
                    fw = Err(());
                    break;
                }
            }
        }
        out.push(fw);
        // backward scan
        let mut bw: Answer = Ok(Vec::new());
        for g in tree.iter(s, None).rev() {
            match g.into_inner() {
                Ok((k, v)) => {
                    if let Ok(b) = bw.as_mut() {
                        b.extend_from_slice(&(k.len() as u32).to_le_bytes());
                        b.extend_from_slice(&k);
                        b.extend_from_slice(&(v.len() as u32).to_le_bytes());
                        b.extend_from_slice(&v);
                    }
                }
                Err(_) => {
                    bw = Err(());
                    break;
                }
            }
        }
        out.push(bw);
        out.push(
            tree.len(s, None)
                .map(|n| (n as u64).to_le_bytes().to_vec())
                .map_err(|_| ()),
        );
        out.push(
            tree.is_empty(s, None)
                .map(|b| vec![u8::from(b)])
                .map_err(|_| ()),
        );
    }
    Ok(out)
}

fn question_name(idx: usize, keys: &[Vec<u8>], seqnos: &[u64]) -> String {
    let per = keys.len() * 2 + 4;
    let s = seqnos[idx / per];
    let r = idx % per;
    if r < keys.len() * 2 {
        let k = Bytes(keys[r / 2].clone()).short();
        if r % 2 == 0 {
            format!("get({k}) at seqno {s}")
        } else {
            format!("size_of({k}) at seqno {s}")
        }
    } else {
        match r - keys.len() * 2 {
            0 => format!("forward scan at seqno {s}"),
            1 => format!("backward scan at seqno {s}"),
            2 => format!("len at seqno {s}"),
            _ => format!("is_empty at seqno {s}"),
        }
    }
}

#[derive(Clone, Debug)]
struct Attempt {
    file: String,
    kind: String, // flip | trunc
    pos: u64,
    bit: u8,
}

fn file_kind(rel: &str) -> &'static str {
    if rel.starts_with("tables/") {
        "table"
    } else if rel.starts_with("blobs/") {
        "blob"
    } else if rel == "current" {
        "current"
    } else {
        "version"
    }
}

fn plan_attempts(img: &simfs::Image, plan: &CorruptSpec, rng: &mut crate::rng::Rng) -> Vec<Attempt> {
    let mut v = Vec::new();
    if !plan.explicit.is_empty() {
        for (f, k, p, b) in &plan.explicit {
            v.push(Attempt {
                file: f.clone(),
                kind: k.clone(),
                pos: *p,
                bit: *b,
            });
        }
        return v;
    }
    let all = plan.mode == "all";
    for (rel, data) in &img.files {
        if rel.contains(".tmp") || data.is_empty() {
            continue;
        }
        let n = data.len() as u64;
        let small = matches!(file_kind(rel), "current" | "version");
        if all || small {
            for p in 0..n {
                if small && all {
                    for bit in 0..8 {
                        v.push(Attempt { file: rel.clone(), kind: "flip".into(), pos: p, bit });
                    }
                } else {
                    v.push(Attempt { file: rel.clone(), kind: "flip".into(), pos: p, bit: rng.below(8) as u8 });
                }
            }
        } else {
            // stratified: head, tail (trailer / TOC / metadata), random body positions
            let mut ps: std::collections::BTreeSet<u64> = std::collections::BTreeSet::new();
            for p in 0..n.min(8) {
                ps.insert(p);
            }
            for p in n.saturating_sub(96)..n {
                if rng.chance(1, 2) {
                    ps.insert(p);
                }
            }
            for _ in 0..24 {
                ps.insert(rng.below(n));
            }
            for p in ps {
                v.push(Attempt { file: rel.clone(), kind: "flip".into(), pos: p, bit: rng.below(8) as u8 });
            }
        }
        // truncations
        let mut lens: std::collections::BTreeSet<u64> = std::collections::BTreeSet::new();
        lens.insert(0);
        lens.insert(n - 1);
        if all && small {
            for l in 0..n {
                lens.insert(l);
            }
        } else {
            for _ in 0..if all { 48 } else { 5 } {
                lens.insert(rng.below(n));
            }
            for d in 1..=8u64 {
                if n > d * 4 {
                    lens.insert(n - d * 4);
                }
            }
        }
        for l in lens {
            v.push(Attempt { file: rel.clone(), kind: "trunc".into(), pos: l, bit: 0 });
        }
    }
    v
}

fn apply(img: &simfs::Image, a: &Attempt) -> simfs::Image {
    let mut out = img.clone();
    if let Some(d) = out.files.get_mut(&a.file) {
        if a.kind == "flip" {
            if let Some(b) = d.get_mut(a.pos as usize) {
                *b ^= 1 << a.bit;
            }
        } else {
            d.truncate(a.pos as usize);
        }
    }
    out
}

/// Processes attempts `[from..]` in this process; writes progress + counters after each one.
/// Returns Err((attempt index, class, message)) on WRONG.
fn process(
    img: &simfs::Image,
    attempts: &[Attempt],
    from: usize,
    cfg: &CfgSpec,
    keys: &[Vec<u8>],
    seqnos: &[u64],
    baseline: &[Answer],
    dir: &Path,
    counters: &mut BTreeMap<String, u64>,
) -> Result<(), (usize, String, String)> {
    for (i, a) in attempts.iter().enumerate().skip(from) {
        let _ = std::fs::write(
            dir.join("cprogress"),
            format!(
                "{i}\n{}",
                serde_json::to_string(counters).unwrap_or_default()
            ),
        );
        let mutated = apply(img, a);
        let root = dir.join("c");
        let _ = std::fs::remove_dir_all(&root);
        simfs::materialize(&mutated, root.to_str().unwrap());
        let kind = file_kind(&a.file);
        let r = std::panic::catch_unwind(|| ask(&root, cfg, keys, seqnos));
        let outcome = match r {
            Err(_) => {
                let _ = crate::runner::take_panic_msg();
                "panic"
            }
            Ok(Err(_)) => "error",
            Ok(Ok(ans)) => {
                let mut any_err = false;
                for (qi, (got, want)) in ans.iter().zip(baseline.iter()).enumerate() {
                    match (got, want) {
                        (Err(()), _) => any_err = true,
                        (Ok(g), Ok(w)) if g == w => {}
                        (Ok(g), w) => {
                            let q = question_name(qi, keys, seqnos);
                            return Err((
                                i,
                                format!("corrupt/wrong-answer/{kind}/{}", a.kind),
                                format!(
                                    "after {} of {} at {} (bit {}), {q} returned Ok({}) but the original answer was {}",
                                    if a.kind == "flip" { "a bit flip" } else { "truncation" },
                                    a.file,
                                    a.pos,
                                    a.bit,
                                    Bytes(g.clone()).short(),
                                    match w {
                                        Ok(w) => Bytes(w.clone()).short(),
                                        Err(()) => "an error".into(),
                                    }
                                ),
                            ));
                        }
                    }
                }
                if any_err {
                    "error"
                } else {
                    "same"
                }
            }
        };
        *counters.entry(format!("corrupt_{}_{}_{outcome}", kind, a.kind)).or_insert(0) += 1;
        *counters.entry(format!("corrupt_outcome_{outcome}")).or_insert(0) += 1;
        *counters.entry(format!("fault_fired_{}_{}", a.kind, kind)).or_insert(0) += 1;
        if outcome != "same" {
            *counters.entry("corrupt_nontrivial".into()).or_insert(0) += 1;
        }
    }
    Ok(())
}

pub fn run_corrupt(prop: &PropDef, spec: &RunSpec, workdir: &Path, index: u64) -> RunResult {
    let plan: CorruptSpec = serde_json::from_value(spec.extra.clone()).unwrap_or_default();
    let opts = EngineOpts {
        decisive: prop.decisive.iter().map(|s| (*s).to_string()).collect(),
        full_checks: false,
        final_reclaim_phase: false,
    };
    let root: PathBuf = workdir.join("t");
    let mut e = Engine::new(spec.clone(), root.clone(), opts, None);
    let built = std::panic::catch_unwind(std::panic::AssertUnwindSafe(|| -> Result<(), Violation> {
        e.open()?;
        let ops = e.spec.ops.clone();
        for op in &ops {
            e.step(op)?;
        }
        // make sure there is something on disk
        e.step(&Op::FlushActive { wm: Wm::Zero })?;
        Ok(())
    }));
    let mut stats = e.stats.clone();
    let built = match built {
        Ok(r) => r,
        Err(_) => {
            let msg = crate::runner::take_panic_msg();
            Err(Violation {
                tag: "panic".into(),
                class: crate::runner::panic_class(&msg),
                msg: format!("panic while building the tree: {msg}"),
                at_op: e.op_idx,
            })
        }
    };
    if built.is_err() {
        std::mem::forget(e);
        return finish_result(prop, spec, index, &stats, built, 1);
    }
    let highest = e.tree().get_highest_seqno().unwrap_or(0);
    let keys = e.probe_keys.clone();
    // close the tree
    e.tree = None;
    drop(e);
    let seqnos = vec![u64::MAX, highest / 2 + 1];
    let img = simfs::scan_dir(root.to_str().unwrap());
    let baseline = match ask(&root, &spec.cfg, &keys, &seqnos) {
        Ok(b) => b,
        Err(m) => {
            let v = Violation {
                tag: "error".into(),
                class: "error/reopen-of-uncorrupted-tree".into(),
                msg: format!("reopening the unmodified tree failed: {m}"),
                at_op: 0,
            };
            return finish_result(prop, spec, index, &stats, Err(v), 1);
        }
    };
    // `ask` reopened the tree, which may clean up orphans: take the image again
    let img2 = simfs::scan_dir(root.to_str().unwrap());
    let img = if img2 == img { img } else { img2 };

    let mut rng = crate::rng::Rng::new(crate::rng::mix(&[spec.seed, 0xC0BB]));
    let attempts = plan_attempts(&img, &plan, &mut rng);
    let total = attempts.len();
    let mut from = 0usize;
    let mut counters: BTreeMap<String, u64> = BTreeMap::new();
    let mut wrong: Option<(usize, String, String)> = None;
    let mut aborts = 0u64;
    // attempts run in a forked helper; an abort (e.g. a corrupted count field makes recovery
    // allocate 64 GiB) kills only the helper, is counted, and the next helper resumes after it
    while from < total {
        let pid = unsafe { libc::fork() };
        if pid == 0 {
            crate::runner::install_panic_hook();
            // allocation-failure aborts print to stderr: keep the check's output clean
            unsafe {
                libc::prctl(libc::PR_SET_PDEATHSIG, libc::SIGKILL);
                let devnull = libc::open(c"/dev/null".as_ptr(), libc::O_WRONLY);
                if devnull >= 0 {
                    libc::dup2(devnull, 2);
                }
            }
            let r = process(&img, &attempts, from, &spec.cfg, &keys, &seqnos, &baseline, workdir, &mut counters);
            let text = match r {
                Ok(()) => format!("done\n{}", serde_json::to_string(&counters).unwrap_or_default()),
                Err((i, c, m)) => format!("wrong\n{i}\n{c}\n{m}\n{}", serde_json::to_string(&counters).unwrap_or_default()),
            };
            let _ = std::fs::write(workdir.join("cresult"), text);
            unsafe { libc::_exit(0) };
        }
        let mut status = 0;
        unsafe { libc::waitpid(pid, &mut status, 0) };
        let res = std::fs::read_to_string(workdir.join("cresult")).unwrap_or_default();
        let _ = std::fs::remove_file(workdir.join("cresult"));
        if libc::WIFEXITED(status) && libc::WEXITSTATUS(status) == 0 && res.starts_with("done") {
            if let Some(c) = res.lines().nth(1) {
                counters = serde_json::from_str(c).unwrap_or_default();
            }
            break;
        } else if res.starts_with("wrong") {
            let mut l = res.lines();
            l.next();
            let i: usize = l.next().and_then(|x| x.parse().ok()).unwrap_or(0);
            let c = l.next().unwrap_or("").to_string();
            let m = l.next().unwrap_or("").to_string();
            if let Some(cs) = l.next() {
                counters = serde_json::from_str(cs).unwrap_or_default();
            }
            wrong = Some((i, c, m));
            break;
        } else {
            // helper died: count the abort for the attempt it was working on and resume
            let prog = std::fs::read_to_string(workdir.join("cprogress")).unwrap_or_default();
            let mut l = prog.lines();
            let i: usize = l.next().and_then(|x| x.parse().ok()).unwrap_or(from);
            if let Some(cs) = l.next() {
                counters = serde_json::from_str(cs).unwrap_or_default();
            }
            aborts += 1;
            let a = &attempts[i.min(total - 1)];
            *counters
                .entry(format!("corrupt_{}_{}_abort", file_kind(&a.file), a.kind))
                .or_insert(0) += 1;
            *counters.entry("corrupt_outcome_abort".into()).or_insert(0) += 1;
            *counters.entry("corrupt_nontrivial".into()).or_insert(0) += 1;
            from = i + 1;
            if aborts > 200 {
                break;
            }
        }
    }
    for (k, v) in &counters {
        stats.add(k, *v);
    }
    stats.add("corrupt_attempts_planned", total as u64);
    let outcome = match &wrong {
        None => Ok(()),
        Some((i, c, m)) => {
            stats.log.push(format!("FAIL {i}"));
            Err(Violation {
                tag: "corrupt".into(),
                class: c.clone(),
                msg: m.clone(),
                at_op: 0,
            })
        }
    };
    let evaluations = counters
        .iter()
        .filter(|(k, _)| k.starts_with("corrupt_outcome_"))
        .map(|(_, v)| *v)
        .sum::<u64>()
        .max(1);
    let mut res = finish_result(prop, spec, index, &stats, outcome, evaluations);
    if let (Some((i, _, _)), Some(s)) = (&wrong, res.spec.as_mut()) {
        let a = &attempts[*i];
        let mut p = plan.clone();
        p.explicit = vec![(a.file.clone(), a.kind.clone(), a.pos, a.bit)];
        s.extra = serde_json::to_value(&p).unwrap();
    }
    // distinct non-trivial: attempts whose corruption was noticed (anything but "same")
    let nt = counters.get("corrupt_nontrivial").copied().unwrap_or(0);
    res.nontrivial_digests = (0..nt).map(|i| crate::rng::mix(&[spec.seed, i, 0xC10])).collect();
    res
}
