//! C11 — physical tuning and cache sharing. `n` trees with independently drawn configurations
//! are opened in one process on one shared block cache and one shared descriptor table (so that
//! table ids coincide across trees) and fed the same history in lock-step; every read of every
//! tree must equal the model, hence each other.

use crate::engine::{Engine, EngineOpts, Shared, Violation};
use crate::props::PropDef;
use crate::runner::{finish_result, RunResult};
use crate::spec::*;
use lsm_tree::{Cache, DescriptorTable};
use std::path::Path;
use std::sync::Arc;

#[derive(Clone, Debug, serde::Serialize, serde::Deserialize, Default)]
pub struct MultiSpec {
    pub cfgs: Vec<CfgSpec>,
    pub cache_bytes: u64,
    pub fd_table: Option<usize>,
    pub order_seed: u64,
}

pub fn gen_multi(prop: &PropDef, seed: u64) -> RunSpec {
    let p = (prop.profile)();
    let mut spec = crate::gen::gen_run(prop.id, seed, &p);
    let mut r = crate::rng::Rng::new(crate::rng::mix(&[seed, 0x3117]));
    let n = 2 + r.usize(3);
    let mut cfgs = vec![spec.cfg.clone()];
    for _ in 1..n {
        let mut c = crate::gen::gen_cfg(&mut r, &p);
        // the history was generated for one tree type: value sizes straddle that threshold
        c.filter_fn = None;
        cfgs.push(c);
    }
    let ms = MultiSpec {
        cfgs,
        cache_bytes: *r.pick(&[0u64, 1024, 64 * 1024, 16 << 20]),
        fd_table: *r.pick(&[None, Some(1usize), Some(2), Some(3), Some(256)]),
        order_seed: r.next_u64(),
    };
    spec.extra = serde_json::to_value(&ms).unwrap();
    spec
}

pub fn run_multi(prop: &PropDef, spec: &RunSpec, workdir: &Path, index: u64) -> RunResult {
    let ms: MultiSpec = serde_json::from_value(spec.extra.clone()).unwrap_or_default();
    let cache = Arc::new(Cache::with_capacity_bytes(ms.cache_bytes));
    let fd = ms.fd_table.map(|n| Arc::new(DescriptorTable::new(n)));
    let mut engines: Vec<Engine> = Vec::new();
    for (i, cfg) in ms.cfgs.iter().enumerate() {
        let mut s = spec.clone();
        s.cfg = cfg.clone();
        let opts = EngineOpts {
            decisive: prop.decisive.iter().map(|s| (*s).to_string()).collect(),
            full_checks: true,
            final_reclaim_phase: false,
        };
        let shared = Shared {
            cache: cache.clone(),
            fd_table: fd.clone(),
        };
        let mut e = Engine::new(s, workdir.join(format!("t{i}")), opts, Some(shared));
        // only the logical answers matter here
        for t in ["structure", "gc_stats", "seqno", "files"] {
            e.disabled.insert(t.to_string());
        }
        engines.push(e);
    }
    let mut stats = crate::engine::Stats::default();
    let mut r = crate::rng::Rng::new(ms.order_seed);
    let outcome = std::panic::catch_unwind(std::panic::AssertUnwindSafe(
        || -> Result<(), Violation> {
            for e in engines.iter_mut() {
                e.open()?;
            }
            let ops = spec.ops.clone();
            for op in &ops {
                // apply the operation to every tree, in a drawn order
                let mut order: Vec<usize> = (0..engines.len()).collect();
                for i in (1..order.len()).rev() {
                    order.swap(i, r.usize(i + 1));
                }
                for &ti in &order {
                    engines[ti].step(op).map_err(|mut v| {
                        v.msg = format!(
                            "tree #{ti} of {} (shared cache {} B, fd table {:?}): {}",
                            ms.cfgs.len(),
                            ms.cache_bytes,
                            ms.fd_table,
                            v.msg
                        );
                        v.class = format!("multi/{}", v.class);
                        if v.tag != "error" && v.tag != "panic" {
                            v.tag = "multi".into();
                        }
                        v
                    })?;
                }
                // after all trees moved: every tree re-reads everything once more, so that
                // blocks / descriptors cached by the *other* trees had a chance to interfere
                for &ti in &order {
                    engines[ti].check_reads().map_err(|mut v| {
                        v.msg = format!("tree #{ti} after the other trees ran: {}", v.msg);
                        v.class = format!("multi/cross/{}", v.class);
                        v.tag = "multi".into();
                        v
                    })?;
                }
            }
            Ok(())
        },
    ));
    let outcome = match outcome {
        Ok(o) => o,
        Err(_) => {
            let msg = crate::runner::take_panic_msg();
            Err(Violation {
                tag: "panic".into(),
                class: crate::runner::panic_class(&msg),
                msg: format!("panic: {msg}"),
                at_op: engines.first().map_or(0, |e| e.op_idx),
            })
        }
    };
    for e in &engines {
        for (k, v) in &e.stats.counters {
            stats.add(k, *v);
        }
        stats.states.extend(e.stats.states.iter().copied());
    }
    stats.log = engines.first().map(|e| e.stats.log.clone()).unwrap_or_default();
    let mut max_dist = 0;
    for a in &ms.cfgs {
        for b in &ms.cfgs {
            max_dist = max_dist.max(a.knob_distance(b));
        }
    }
    if max_dist >= 3 {
        stats.inc("multi_configs_differ_in_3_knobs");
    }
    let total_tables: u64 = stats.get("merges_done") + stats.get("op_flush_active");
    if ms.fd_table.is_some_and(|n| n <= 3) && total_tables >= 2 {
        stats.inc("multi_fd_table_under_pressure");
    }
    stats.add("multi_trees", ms.cfgs.len() as u64);
    for e in engines {
        std::mem::forget(e);
    }
    finish_result(prop, spec, index, &stats, outcome, ms.cfgs.len() as u64)
}
