//! Per-property check definitions: generator profile, decisive oracles, budgets, and the
//! non-triviality rule reported in the evidence.

use crate::engine::Stats;
use crate::gen::*;

#[derive(Clone, Copy, Debug, PartialEq, Eq)]
pub enum EngineKind {
    /// sequential history vs. model (engine.rs)
    Seq,
    /// n trees, one history, shared cache / fd table (multi.rs)
    Multi,
    /// journaled history -> crash images -> real recovery (crash.rs)
    Crash,
    /// I/O error injection at call #i of an operation (fault.rs)
    Fault,
    /// stored-byte faults (corrupt.rs)
    Corrupt,
    /// baton scheduler over real threads (conc.rs)
    Conc,
}

pub struct PropDef {
    pub id: &'static str,
    pub engine: EngineKind,
    pub level: &'static str,
    pub decisive: &'static [&'static str],
    pub quick_runs: u64,
    pub thorough_runs: u64,
    pub rule: &'static str,
    pub profile: fn() -> Profile,
    pub nontrivial: fn(&Stats) -> bool,
    pub final_reclaim: bool,
    pub technique: &'static str,
}

/// Tags that are decisive for every property: a fault-free run must not error, panic or hang.
pub const ALWAYS_DECISIVE: [&str; 4] = ["error", "panic", "abort", "hang"];

fn p_c01() -> Profile {
    let mut p = Profile::base();
    p.bulk_prelude = true;
    p.leveled_focus = true;
    p.w[W_SNAP_OPEN] = 0;
    p
}

fn p_c02() -> Profile {
    let mut p = Profile::base();
    p.blob = Tri::Maybe;
    p.filter_fn = Tri::Maybe;
    p.w[W_SNAP_OPEN] = 10;
    p.w[W_SNAP_CLOSE] = 3;
    p.w[W_INGEST] = 3;
    p.w[W_DROP_RANGE] = 3;
    p.w[W_CLEAR] = 1;
    p.w[W_REOPEN] = 1;
    p.w[W_SCAN] = 4;
    p
}

fn p_c03() -> Profile {
    let mut p = Profile::base();
    p.w[W_INGEST] = 4;
    p.w[W_SCAN] = 25;
    p.w[W_PREFIX] = 10;
    p.w[W_SNAP_OPEN] = 4;
    p.w[W_SNAP_CLOSE] = 1;
    p.w[W_FLUSH_ACTIVE] = 12;
    p.w[W_ROTATE] = 6;
    p
}

fn p_c04() -> Profile {
    let mut p = Profile::base();
    p.blob = Tri::Maybe;
    p.w[W_REOPEN] = 10;
    p.w[W_INGEST] = 3;
    p.w[W_DROP_RANGE] = 2;
    p.w[W_CLEAR] = 1;
    p
}

fn p_c07() -> Profile {
    let mut p = Profile::base();
    p.leveled_focus = true;
    p.blob = Tri::Maybe;
    p.w[W_INGEST] = 3;
    p.w[W_DROP_RANGE] = 3;
    p.w[W_LEVELED] = 14;
    p.w[W_FLUSH_ACTIVE] = 14;
    p.w[W_MOVEDOWN] = 3;
    p.w[W_PULLDOWN] = 3;
    p
}

fn p_c08() -> Profile {
    let mut p = Profile::base();
    p.blob = Tri::Always;
    p.blob_ingest = true;
    p.shared_blob_prelude = true;
    p.w[W_INGEST] = 4;
    p.filter_fn = Tri::Maybe;
    p.w[W_SNAP_OPEN] = 5;
    p.w[W_SNAP_CLOSE] = 2;
    p.w[W_SCAN] = 5;
    p.w[W_PREFIX] = 2;
    p.w[W_REOPEN] = 4;
    p.w[W_MAJOR] = 6;
    p.w[W_DROP_RANGE] = 2;
    p
}

fn p_c09() -> Profile {
    let mut p = Profile::base();
    p.blob = Tri::Always;
    p.wild_weak_deletes = true;
    p.shared_blob_prelude = true;
    p.filter_fn = Tri::Maybe;
    p.w[W_MAJOR] = 8;
    p.w[W_LEVELED] = 10;
    p.w[W_DROP_RANGE] = 5;
    p.w[W_INGEST] = 3;
    p.w[W_REOPEN] = 4;
    p.w[W_CLEAR] = 1;
    p
}

fn p_c13() -> Profile {
    let mut p = Profile::base();
    p.weak_deletes = true;
    p.blob = Tri::Maybe;
    p.max_ops = 70;
    p.w[W_WRITE] = 34;
    p.w[W_BATCH] = 2;
    p.w[W_SNAP_OPEN] = 2;
    p.w[W_SNAP_CLOSE] = 3;
    p.w[W_SCAN] = 2;
    p.w[W_FLUSH_ACTIVE] = 14;
    p.w[W_LEVELED] = 10;
    p.w[W_MAJOR] = 4;
    p.w[W_PULLDOWN] = 5;
    p.w[W_MOVEDOWN] = 2;
    p.w[W_REOPEN] = 1;
    p
}

fn p_c14() -> Profile {
    let mut p = Profile::base();
    p.blob = Tri::Maybe;
    p.blob_ingest = true;
    p.w[W_INGEST] = 14;
    p.w[W_SNAP_OPEN] = 6;
    p.w[W_SNAP_CLOSE] = 2;
    p.w[W_REOPEN] = 4;
    p.w[W_SCAN] = 3;
    p
}

fn p_c15() -> Profile {
    let mut p = Profile::base();
    p.blob = Tri::Maybe;
    p.w[W_DROP_RANGE] = 14;
    p.w[W_CLEAR] = 4;
    p.w[W_SNAP_OPEN] = 6;
    p.w[W_SNAP_CLOSE] = 2;
    p.w[W_REOPEN] = 4;
    p.w[W_SCAN] = 3;
    p.w[W_MAJOR] = 4;
    p
}

fn p_c17() -> Profile {
    let mut p = Profile::base();
    p.blob = Tri::Maybe;
    p.filter_fn = Tri::Always;
    p.once_keys_write_once = true;
    p.w[W_MAJOR] = 8;
    p.w[W_LEVELED] = 10;
    p.w[W_PULLDOWN] = 4;
    p.w[W_SNAP_OPEN] = 5;
    p.w[W_SNAP_CLOSE] = 2;
    p.w[W_REOPEN] = 2;
    p
}

fn p_c18() -> Profile {
    let mut p = Profile::base();
    p.blob = Tri::Maybe;
    p.w[W_INGEST] = 6;
    p.w[W_DROP_RANGE] = 4;
    p.w[W_CLEAR] = 2;
    p.w[W_REOPEN] = 5;
    p.w[W_MAJOR] = 5;
    p
}

fn p_c19() -> Profile {
    let mut p = Profile::base();
    p.fifo = true;
    p.blob = Tri::Maybe;
    p.w = [0; 18];
    p.w[W_WRITE] = 30;
    p.w[W_FLUSH_ACTIVE] = 14;
    p.w[W_CLOCK] = 12;
    p.w[W_REOPEN] = 3;
    p.w[W_ROTATE] = 2;
    // FIFO op weight is handled by the check itself (it replaces W_LEVELED)
    p.w[W_LEVELED] = 10;
    p
}

fn p_c20() -> Profile {
    let mut p = Profile::base();
    p.blob = Tri::Maybe;
    p.w[W_SNAP_OPEN] = 6;
    p.w[W_SNAP_CLOSE] = 4;
    p.w[W_DROP_RANGE] = 4;
    p.w[W_CLEAR] = 2;
    p.w[W_INGEST] = 2;
    p.w[W_REOPEN] = 4;
    p.w[W_MAJOR] = 6;
    p.w[W_LEVELED] = 12;
    p
}

fn p_c05() -> Profile {
    let mut p = Profile::base();
    p.blob = Tri::Maybe;
    p.min_ops = 4;
    p.max_ops = 22;
    p.w[W_WRITE] = 30;
    p.w[W_BATCH] = 5;
    p.w[W_FLUSH_ACTIVE] = 14;
    p.w[W_FLUSH] = 3;
    p.w[W_ROTATE] = 3;
    p.w[W_LEVELED] = 8;
    p.w[W_MAJOR] = 5;
    p.w[W_MOVEDOWN] = 1;
    p.w[W_PULLDOWN] = 2;
    p.w[W_DROP_RANGE] = 3;
    p.w[W_CLEAR] = 2;
    p.w[W_INGEST] = 3;
    p.w[W_REOPEN] = 3;
    p.w[W_CLOCK] = 0;
    p
}

fn p_c16() -> Profile {
    let mut p = Profile::base();
    p.blob = Tri::Maybe;
    p.filter_fn = Tri::Never;
    p.min_ops = 4;
    p.max_ops = 20;
    p.w[W_WRITE] = 30;
    p.w[W_BATCH] = 5;
    p.w[W_FLUSH_ACTIVE] = 14;
    p.w[W_FLUSH] = 3;
    p.w[W_ROTATE] = 3;
    p.w[W_LEVELED] = 8;
    p.w[W_MAJOR] = 5;
    p.w[W_MOVEDOWN] = 1;
    p.w[W_PULLDOWN] = 2;
    p.w[W_DROP_RANGE] = 4;
    p.w[W_CLEAR] = 2;
    p.w[W_INGEST] = 4;
    p.w[W_REOPEN] = 1;
    p.w[W_SNAP_OPEN] = 2;
    p.w[W_SNAP_CLOSE] = 1;
    p.w[W_CLOCK] = 0;
    p
}

fn nt_c16(s: &Stats) -> bool {
    s.get("fault_reported_by_operation") >= 1
}

fn p_c10() -> Profile {
    let mut p = Profile::base();
    p.blob = Tri::Maybe;
    p.min_ops = 3;
    p.max_ops = 16;
    p.w[W_INGEST] = 3;
    p.w[W_REOPEN] = 0;
    p.w[W_CLOCK] = 0;
    p.w[W_MAJOR] = 4;
    p.no_huge_values = true;
    p
}

fn nt_c10(s: &Stats) -> bool {
    s.get("corrupt_nontrivial") >= 1
}

fn p_c11() -> Profile {
    let mut p = Profile::base();
    p.blob = Tri::Maybe;
    p.bulk_prelude = true;
    p.filter_fn = Tri::Never;
    p.max_ops = 45;
    p.w[W_SCAN] = 6;
    p.w[W_PREFIX] = 2;
    p.w[W_SNAP_OPEN] = 3;
    p.w[W_SNAP_CLOSE] = 1;
    p.w[W_INGEST] = 2;
    p.w[W_DROP_RANGE] = 0;
    p.w[W_REOPEN] = 3;
    p
}

fn nt_c11(s: &Stats) -> bool {
    s.get("multi_configs_differ_in_3_knobs") >= 1 && s.get("multi_fd_table_under_pressure") >= 1
}

fn nt_c06(s: &Stats) -> bool {
    s.get("conc_nontrivial") >= 1
}

fn nt_c05(s: &Stats) -> bool {
    s.get("crash_images_with_pending_effects") >= 1
}

fn nt_c01(s: &Stats) -> bool {
    s.get("op_flush_active") + s.get("op_flush") >= 2
        && s.get("merges_done") >= 1
        && s.get("audit_has_lower_level") >= 1
}
fn nt_c02(s: &Stats) -> bool {
    s.get("snapshot_rechecks") >= 1 && s.get("probe_snapshot_on_older_version") >= 1
}
fn nt_c03(s: &Stats) -> bool {
    s.get("scan_mixed_directions") >= 1 && s.get("audit_nontrivial_shape") >= 1
}
fn nt_c04(s: &Stats) -> bool {
    s.get("reopen_nontrivial") >= 1
}
fn nt_c07(s: &Stats) -> bool {
    s.get("audit_nontrivial_shape") >= 1
}
fn nt_c08(s: &Stats) -> bool {
    s.get("probe_blob_relocation") + s.get("probe_blob_file_dropped") + s.get("filter_replace_crossed_threshold") >= 1
}
fn nt_c09(s: &Stats) -> bool {
    s.get("gc_nonzero_garbage_checked") >= 1
}
fn nt_c13(s: &Stats) -> bool {
    s.get("op_remove_weak") >= 1 && s.get("merges_done") >= 1
}
fn nt_c14(s: &Stats) -> bool {
    s.get("ingest_with_memtable_data") >= 1 || s.get("op_ingest") >= 2
}
fn nt_c15(s: &Stats) -> bool {
    s.get("drop_range_dropped_tables") + s.get("op_clear") >= 1
}
fn nt_c17(s: &Stats) -> bool {
    s.get("filter_verdict_remove")
        + s.get("filter_verdict_replace_small")
        + s.get("filter_verdict_replace_large")
        + s.get("filter_verdict_remove_weak")
        + s.get("filter_verdict_destroy")
        >= 1
}
fn nt_c18(s: &Stats) -> bool {
    s.get("audits") >= 2 && (s.get("seqno_checked_with_global_seqno") >= 1 || s.get("merges_done") >= 1)
}
fn nt_c19(s: &Stats) -> bool {
    s.get("fifo_removed_by_size") + s.get("fifo_removed_expired") >= 1
}
fn nt_c20(s: &Stats) -> bool {
    s.get("final_reclaim_phase_checked") >= 1 && s.get("merges_done") >= 1
}

const READ_TAGS: &[&str] = &["point", "snapshot", "scan"];

pub fn all_props() -> Vec<PropDef> {
    vec![
        PropDef {
            id: "C01",
            engine: EngineKind::Seq,
            level: "exploration",
            decisive: &["point"],
            quick_runs: 1800,
            thorough_runs: 60000,
            rule: "one run = one generated history (config swarm x op mix x keys) executed sequentially against the real tree and the map model; after every step get/contains_key/size_of of every universe key and never-written neighbours are compared at visible_seqno and SeqNo::MAX. Non-trivial: >=2 flushes, >=1 merge that changed the table set, and data below L0; distinct by event-log digest.",
            profile: p_c01,
            nontrivial: nt_c01,
            final_reclaim: false,
            technique: "deterministic simulation: seeded sequential history vs reference model",
        },
        PropDef {
            id: "C02",
            engine: EngineKind::Seq,
            level: "exploration",
            decisive: &["snapshot", "conc"],
            quick_runs: 4000,
            thorough_runs: 50000,
            rule: "history with up to 4 live snapshots (S read from visible_seqno); every later maintenance call gets a watermark strictly below every live snapshot; after every step each live snapshot re-reads every key, a full scan, len, first/last against the view frozen when it was opened. Non-trivial: a snapshot was re-read while it resolved to a non-latest super version.",
            profile: p_c02,
            nontrivial: nt_c02,
            final_reclaim: false,
            technique: "deterministic simulation: seeded history with snapshot tracker vs frozen model views",
        },
        PropDef {
            id: "C03",
            engine: EngineKind::Seq,
            level: "exploration",
            decisive: &["scan"],
            quick_runs: 4500,
            thorough_runs: 55000,
            rule: "range/prefix/iter/first/last/len/is_empty with bounds drawn from universe keys, between-key strings, prefixes and 0xFF-terminated strings (incl. empty and inverted), consumed by a drawn next/next_back word, optionally with an overlay memtable, at latest and live snapshots, on layouts produced by flush/compaction histories. Non-trivial: a scan mixed both directions over >=2 items and the version had >=2 runs or a multi-table run.",
            profile: p_c03,
            nontrivial: nt_c03,
            final_reclaim: false,
            technique: "deterministic simulation: seeded history + scan words vs reference model",
        },
        PropDef {
            id: "C04",
            engine: EngineKind::Seq,
            level: "exploration",
            decisive: &["reopen", "point", "scan"],
            quick_runs: 4000,
            thorough_runs: 25000,
            rule: "drop+open at drawn positions of a history; afterwards the dump with sequence numbers equals the model minus unflushed writes, table/blob ids per level and highest persisted seqno are unchanged, id counters are past existing files, and the history continues. Non-trivial: reopen with >=2 populated levels or >=2 L0 runs.",
            profile: p_c04,
            nontrivial: nt_c04,
            final_reclaim: false,
            technique: "deterministic simulation: seeded history with reopen vs reference model",
        },
        PropDef {
            id: "C05",
            engine: EngineKind::Crash,
            level: "fault_enumeration",
            decisive: &["crash"],
            quick_runs: 3000,
            thorough_runs: 5000,
            rule: "one run = one journaled history (create, writes, flush, compactions, clear, drop_range, ingest, reopen; standard and blob); one evaluation = one crash image = (journal prefix k, persistence outcome) on which the real recovery is executed in a forked process and the recovered content (values and seqnos) is compared with the durable logical content before/after the in-flight operation, then a write+flush must work, and with probability 1/4 a second crash during that recovery is injected. quick: 10 sampled prefixes (80% inside an operation) x {strict, lucky, ordered-prefix, 2 random permissive with torn writes}; thorough: every prefix x {strict, lucky, ordered-prefix, 4 random}. Non-trivial/distinct: distinct image content hashes among images for which unsynced effects were pending at the crash point.",
            profile: p_c05,
            nontrivial: nt_c05,
            final_reclaim: false,
            technique: "deterministic simulation: libc-level journal -> crash-image enumeration -> real recovery",
        },
        PropDef {
            id: "C06",
            engine: EngineKind::Conc,
            level: "exploration",
            decisive: &["conc", "deadlock", "snapshot"],
            quick_runs: 2500,
            thorough_runs: 30000,
            rule: "one run = one workload (writer with batches, 1-2 readers taking snapshots from visible_seqno through a snapshot tracker, flusher, 1-3 Leveled compactors, optionally a major_compact/drop_range thread; watermarks strictly below the oldest live snapshot) executed by real threads under one seeded schedule (uniform random or PCT with 1-4 priority change points; file-system-call yield points in half of the runs). Every read is checked afterwards against the model with the in-flight window (a write whose seqno is below the snapshot but which had not returned when the snapshot was read may or may not be visible); no Err, no panic, no deadlock; at quiescence the content equals all acknowledged writes, nothing stays hidden, the structure audit passes, and flush+reopen gives the same content. Non-trivial: >=2 maintenance operations of different threads overlapped in time and >=10 context switches. Distinct interleavings = distinct hashes of the (thread, site class) sequence.",
            profile: p_c01,
            nontrivial: nt_c06,
            final_reclaim: false,
            technique: "deterministic simulation: seeded baton scheduler over real threads + reference model",
        },
        PropDef {
            id: "C07",
            engine: EngineKind::Seq,
            level: "exploration",
            decisive: &["structure"],
            quick_runs: 3000,
            thorough_runs: 55000,
            rule: "after every version change the auditor scans every table of the published version: run disjointness/order, recency order across runs for shared keys, metadata (key range, seqno range, counts) vs contents, files exist, version file decodes to the same structure. Non-trivial: version with >=2 L0 runs or a multi-table run.",
            profile: p_c07,
            nontrivial: nt_c07,
            final_reclaim: false,
            technique: "deterministic simulation: structural audit of every published version",
        },
        PropDef {
            id: "C08",
            engine: EngineKind::Seq,
            level: "exploration",
            decisive: &["point", "snapshot", "scan", "reopen", "filter", "pointer"],
            quick_runs: 4000,
            thorough_runs: 50000,
            rule: "key-value-separated tree with drawn threshold/file size/staleness/age cutoff/compression driven by the C01+C02+C03+C04 workload and compared with the same model a standard tree satisfies; after every version change the auditor decodes every pointer of every table and demands that its blob file is part of the version. Non-trivial: a blob relocation, a blob file drop, or a filter replacement crossing the threshold happened and was read back.",
            profile: p_c08,
            nontrivial: nt_c08,
            final_reclaim: false,
            technique: "deterministic simulation: blob-tree history vs reference model",
        },
        PropDef {
            id: "C09",
            engine: EngineKind::Seq,
            level: "exploration",
            decisive: &["gc_stats", "pointer"],
            quick_runs: 4500,
            thorough_runs: 55000,
            rule: "after every version change of a blob-tree history the auditor recomputes per blob file garbage = blobs in file - blobs referenced by tables of this version (count, bytes, on-disk bytes) and compares with gc_stats and stale_blob_bytes; no pointer into an absent file; dead files leave within one further merge; stats equal across reopen. Non-trivial: a file with non-zero garbage was checked.",
            profile: p_c09,
            nontrivial: nt_c09,
            final_reclaim: false,
            technique: "deterministic simulation: recomputation of blob garbage from table scans",
        },
        PropDef {
            id: "C10",
            engine: EngineKind::Corrupt,
            level: "fault_enumeration",
            decisive: &["corrupt"],
            quick_runs: 1000,
            thorough_runs: 400,
            rule: "one run = one small tree (standard or blob, drawn block/index/filter/compression settings) built by a fault-free history and closed; one evaluation = one stored-byte fault (a single bit flip at a byte position, or one truncation, of one table / blob / version / current file) followed by a reopen with an empty cache and re-asking every question (get and size_of of every key, forward and backward scan, len, is_empty, at seqno MAX and at a mid seqno); each answer must be Err or the original answer. quick: every byte of `current` and v<N> (1 random bit), stratified positions (head, tail, 24 random) of tables and blob files, ~15 truncation lengths per file; thorough: every byte position of every file (all 8 bits for version files), every truncation length of small files. Outcomes classified same|error|panic|abort|WRONG; only WRONG is a violation. Non-trivial/distinct: attempts whose fault was noticed (outcome other than same).",
            profile: p_c10,
            nontrivial: nt_c10,
            final_reclaim: false,
            technique: "deterministic simulation: stored-byte fault enumeration with re-open",
        },
        PropDef {
            id: "C11",
            engine: EngineKind::Multi,
            level: "exploration",
            decisive: &["multi", "point", "scan", "snapshot", "reopen"],
            quick_runs: 1200,
            thorough_runs: 30000,
            rule: "one run = 2-4 trees with independently drawn configurations (block size, restart interval, hash ratio, index/filter partitioning and pinning, filter policy incl. none and expect_point_read_hits, compression, standard/blob) opened in one process on one shared block cache (0 B, 1 KiB, 64 KiB, 16 MiB) and one shared descriptor table (none, 1, 2, 3, 256), fed one history in lock-step in a drawn order; after every step every tree re-reads every key, a full scan, len, first/last at the newest and at live snapshots, and once more after the other trees have run. evaluations = trees x runs. Non-trivial: configurations differ in >=3 knobs and the descriptor table (capacity <=3) is under pressure from >=2 tables.",
            profile: p_c11,
            nontrivial: nt_c11,
            final_reclaim: false,
            technique: "deterministic simulation: lock-step trees on shared cache/fd table vs reference model",
        },
        PropDef {
            id: "C13",
            engine: EngineKind::Seq,
            level: "exploration",
            decisive: READ_TAGS,
            quick_runs: 4000,
            thorough_runs: 50000,
            rule: "single-delete key class cycles insert -> remove_weak under flush/compaction/watermark interleavings; model treats the weak tombstone as a tombstone. Non-trivial: >=1 weak delete and >=1 merge.",
            profile: p_c13,
            nontrivial: nt_c13,
            final_reclaim: false,
            technique: "deterministic simulation: single-delete discipline history vs reference model",
        },
        PropDef {
            id: "C14",
            engine: EngineKind::Seq,
            level: "exploration",
            decisive: &["point", "snapshot", "scan", "reopen", "ingest", "conc", "deadlock"],
            quick_runs: 3000,
            thorough_runs: 40000,
            rule: "ingestions of sorted batches (values and tombstones) interleaved with writes issued between ingestion() and finish(), snapshots before/in between/after, flush, compaction, reopen. Non-trivial: ingestion finished while memtables held data, or >=2 ingestions.",
            profile: p_c14,
            nontrivial: nt_c14,
            final_reclaim: false,
            technique: "deterministic simulation: ingestion history vs reference model",
        },
        PropDef {
            id: "C15",
            engine: EngineKind::Seq,
            level: "exploration",
            decisive: &["point", "snapshot", "scan", "reopen", "drop_range", "conc", "deadlock"],
            quick_runs: 4000,
            thorough_runs: 25000,
            rule: "drop_range with bounds drawn around table edges (incl. empty/inverted) and clear, with snapshots before and after; keys outside R and earlier snapshots must be unchanged; dropped tables must lie wholly inside R judged from their real first/last key; inside R the model re-synchronises from a physical audit. Every fourth run: clear() on its own thread next to writer, readers, flusher and compactors under the baton scheduler (windows of event numbers decide what a read may return). Non-trivial: a drop_range dropped >=1 table or a clear ran.",
            profile: p_c15,
            nontrivial: nt_c15,
            final_reclaim: false,
            technique: "deterministic simulation: drop_range/clear history vs reference model + physical audit",
        },
        PropDef {
            id: "C16",
            engine: EngineKind::Fault,
            level: "fault_enumeration",
            decisive: &["fault", "point", "scan", "snapshot", "reopen"],
            quick_runs: 4000,
            thorough_runs: 3000,
            rule: "one run = one history executed fault-free with the file-system calls of its flush/compaction/drop_range/clear/ingest operations counted (n), then re-executed from scratch once per chosen call index i with one fault armed there; one evaluation = one (history, i, kind) with kind in ENOSPC/EIO (must be reported or absorbed, reads unchanged, nothing left hidden, then either the same call succeeds on retry and the history continues against the model, or a reopen yields the state before or after the call) or short write/EINTR (must not fail the operation). quick: 10 sampled i per history; thorough: every i. Non-trivial/distinct: distinct (history, call site, fault kind) at which the fault fired.",
            profile: p_c16,
            nontrivial: nt_c16,
            final_reclaim: false,
            technique: "deterministic simulation: libc-level I/O error enumeration per operation",
        },
        PropDef {
            id: "C17",
            engine: EngineKind::Seq,
            level: "exploration",
            decisive: &["point", "snapshot", "scan", "filter"],
            quick_runs: 3000,
            thorough_runs: 40000,
            rule: "compaction filter installed from the start; verdict = pure function of (key class, value, salt) over Keep/Remove/Replace(small|large)/RemoveWeak/Destroy (last two only for write-once keys); the filter logs what it is shown and the model applies each verdict to exactly that version. Non-trivial: >=1 non-Keep verdict applied.",
            profile: p_c17,
            nontrivial: nt_c17,
            final_reclaim: false,
            technique: "deterministic simulation: logging compaction filter + reference model",
        },
        PropDef {
            id: "C18",
            engine: EngineKind::Seq,
            level: "exploration",
            decisive: &["seqno"],
            quick_runs: 4000,
            thorough_runs: 55000,
            rule: "after every version change get_highest_persisted_seqno is compared with the maximum seqno found by scanning all tables (global seqno applied), get_highest_memtable_seqno with the model's memtable maximum, get_highest_seqno with the max of both, and across reopen. Non-trivial: >=2 audits incl. an ingested table (shifted seqnos) or a merge.",
            profile: p_c18,
            nontrivial: nt_c18,
            final_reclaim: false,
            technique: "deterministic simulation: audit of stored sequence numbers vs API",
        },
        PropDef {
            id: "C19",
            engine: EngineKind::Seq,
            level: "exploration",
            decisive: &["fifo", "point", "scan", "reopen"],
            quick_runs: 5000,
            thorough_runs: 60000,
            rule: "append-only monotone keys, flushes at drawn simulated times, FIFO(limit, ttl) with limit/ttl drawn around current size/age under a simulated clock; removed vs retained tables are compared by created_at/expiry, retained keys must read back, also after reopen. Non-trivial: FIFO removed >=1 table.",
            profile: p_c19,
            nontrivial: nt_c19,
            final_reclaim: false,
            technique: "deterministic simulation with simulated clock: FIFO drop relation",
        },
        PropDef {
            id: "C20",
            engine: EngineKind::Seq,
            level: "exploration",
            decisive: &["files"],
            quick_runs: 4500,
            thorough_runs: 55000,
            rule: "after every version change: every file named by a retained version or live snapshot exists (readdir), nothing exists that no retained version names, at most one retained version lies below the watermark; after reopen and after a final release-everything phase the directory equals the current version. Non-trivial: final phase reached after >=1 merge.",
            profile: p_c20,
            nontrivial: nt_c20,
            final_reclaim: true,
            technique: "deterministic simulation: directory listing vs retained versions",
        },
    ]
}

pub fn find(id: &str) -> Option<PropDef> {
    all_props().into_iter().find(|p| p.id == id)
}
