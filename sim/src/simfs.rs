//! `simfs` — the disk seam.
//!
//! The harness binary defines the libc entry points that `std`, `sfa`, `tempfile` (built with
//! `--cfg rustix_use_libc`) and lsm-tree use for file-system mutation. Static linking binds
//! their undefined references to these definitions, so every create/write/fsync/rename/unlink
//! issued below the tracked root passes through here. The real kernel tmpfs is only the byte
//! store; what is *durable*, what *fails*, and what survives a crash is decided here.

use std::collections::{BTreeMap, BTreeSet, HashMap};
use std::ffi::CStr;
use std::sync::atomic::{AtomicBool, AtomicU64, AtomicU8, Ordering};
use std::sync::Mutex;

use libc::{c_char, c_int, c_void, mode_t, off_t, size_t, ssize_t};

pub type Ino = u32;

#[derive(Clone, Debug, PartialEq, Eq)]
pub enum Ev {
    Mkdir { path: String },
    Create { path: String, ino: Ino },
    Trunc { ino: Ino, len: u64 },
    Write { ino: Ino, off: u64, data: Vec<u8> },
    Fsync { ino: Ino },
    FsyncDir { path: String },
    Rename { from: String, to: String },
    Unlink { path: String },
    Rmdir { path: String },
    /// Operation boundary marker written by the harness (`begin:<op>` / `end:<op>:<ok|err>`).
    Mark(String),
}

#[derive(Clone, Debug)]
pub struct Rec {
    pub ev: Ev,
    pub thread: u32,
}

/// A directory tree as plain data (paths relative to the root, '/'-separated, "" = root).
#[derive(Clone, Debug, Default, PartialEq, Eq)]
pub struct Image {
    pub dirs: BTreeSet<String>,
    pub files: BTreeMap<String, Vec<u8>>,
}

#[derive(Clone, Copy, Debug, PartialEq, Eq)]
pub enum FaultKind {
    /// The call fails with the given errno and has no effect.
    Errno(i32),
    /// `write` transfers only part of the buffer (legal; callers must loop).
    ShortWrite,
    /// The call fails once with EINTR (legal for write/read/open).
    Eintr,
    /// The call fails with the errno that fits its class: ENOSPC (if preferred) or EIO for
    /// create/write/mkdir/rename/truncate, EIO for fsync/unlink/read.
    Io { prefer_enospc: bool },
}

#[derive(Clone, Copy, Debug, PartialEq, Eq, Hash, PartialOrd, Ord)]
pub enum CallClass {
    Create,
    Write,
    Fsync,
    FsyncDir,
    Rename,
    Unlink,
    Mkdir,
    Trunc,
    OpenExisting,
    Read,
}

impl CallClass {
    pub fn name(self) -> &'static str {
        match self {
            CallClass::Create => "create",
            CallClass::Write => "write",
            CallClass::Fsync => "fsync",
            CallClass::FsyncDir => "fsync_dir",
            CallClass::Rename => "rename",
            CallClass::Unlink => "unlink",
            CallClass::Mkdir => "mkdir",
            CallClass::Trunc => "truncate",
            CallClass::OpenExisting => "open",
            CallClass::Read => "read",
        }
    }
}

#[derive(Clone, Debug)]
pub struct FaultPlan {
    /// Fire at the n-th counted call (0-based) after arming.
    pub at_call: u64,
    pub kind: FaultKind,
    /// Count read-side calls (open of existing files, read, pread) too.
    pub count_reads: bool,
}

#[derive(Clone, Debug, Default)]
pub struct FaultReport {
    pub armed: bool,
    pub calls_seen: u64,
    pub fired: Option<(CallClass, String)>,
}

enum FdEnt {
    File(Ino),
    Dir(String),
}

struct Fs {
    root: String,
    next_ino: Ino,
    names: HashMap<String, Ino>,
    dirs: BTreeSet<String>,
    fds: HashMap<i32, FdEnt>,
    journal: Vec<Rec>,
    base: Image,
    fault: Option<FaultPlan>,
    fault_calls: u64,
    fault_fired: Option<(CallClass, String)>,
    /// per-class call counters since the last `reset_counts`
    counts: BTreeMap<CallClass, u64>,
    /// trace of counted calls since arming (class, path) — used to describe call sites
    call_trace: Vec<(CallClass, String)>,
    trace_calls: bool,
    fault_paused: bool,
}

static ACTIVE: AtomicBool = AtomicBool::new(false);
static FS: Mutex<Option<Fs>> = Mutex::new(None);
const MAX_FD: usize = 4096;
static TRACKED: [AtomicU8; MAX_FD] = [const { AtomicU8::new(0) }; MAX_FD];
static YIELD_ON_FS: AtomicBool = AtomicBool::new(false);
pub static FS_CALLS: AtomicU64 = AtomicU64::new(0);

thread_local! {
    static BYPASS: std::cell::Cell<bool> = const { std::cell::Cell::new(false) };
}

fn thread_id() -> u32 {
    crate::sched::current_thread_id()
}

/// Runs `f` with interposition disabled for the calling thread (harness-side file access
/// below the tracked root: image materialisation, directory listings, byte edits).
pub fn bypass<T>(f: impl FnOnce() -> T) -> T {
    let prev = BYPASS.with(|c| c.replace(true));
    let r = f();
    BYPASS.with(|c| c.set(prev));
    r
}

fn bypassed() -> bool {
    BYPASS.with(std::cell::Cell::get)
}

pub fn set_yield_on_fs(b: bool) {
    YIELD_ON_FS.store(b, Ordering::SeqCst);
}

fn fs_yield(site: &'static str) {
    if YIELD_ON_FS.load(Ordering::Relaxed) {
        crate::sched::fs_yield(site);
    }
}

fn errno_set(e: i32) {
    unsafe {
        *libc::__errno_location() = e;
    }
}

fn rel<'a>(root: &str, path: &'a str) -> Option<&'a str> {
    if path == root {
        Some("")
    } else if path.len() > root.len()
        && path.starts_with(root)
        && path.as_bytes()[root.len()] == b'/'
    {
        Some(&path[root.len() + 1..])
    } else {
        None
    }
}

fn parent(relp: &str) -> &str {
    match relp.rfind('/') {
        Some(i) => &relp[..i],
        None => "",
    }
}

fn basename(relp: &str) -> &str {
    match relp.rfind('/') {
        Some(i) => &relp[i + 1..],
        None => relp,
    }
}

/// Reads a real directory tree into an `Image` (no interposition involved: uses raw reads).
pub fn scan_dir(root: &str) -> Image {
    bypass(|| {
        let mut img = Image::default();
        fn walk(root: &str, relp: &str, img: &mut Image) {
            let abs = if relp.is_empty() {
                root.to_string()
            } else {
                format!("{root}/{relp}")
            };
            let mut entries: Vec<_> = match std::fs::read_dir(&abs) {
                Ok(rd) => rd.filter_map(Result::ok).collect(),
                Err(_) => return,
            };
            entries.sort_by_key(std::fs::DirEntry::file_name);
            for e in entries {
                let name = e.file_name().to_string_lossy().to_string();
                let child = if relp.is_empty() {
                    name
                } else {
                    format!("{relp}/{name}")
                };
                let ft = match e.file_type() {
                    Ok(ft) => ft,
                    Err(_) => continue,
                };
                if ft.is_dir() {
                    img.dirs.insert(child.clone());
                    walk(root, &child, img);
                } else {
                    let data = std::fs::read(e.path()).unwrap_or_default();
                    img.files.insert(child, data);
                }
            }
        }
        walk(root, "", &mut img);
        img
    })
}

/// Writes an image into a fresh directory (which must not exist).
pub fn materialize(img: &Image, root: &str) {
    bypass(|| {
        std::fs::create_dir_all(root).expect("materialize: mkdir root");
        for d in &img.dirs {
            std::fs::create_dir_all(format!("{root}/{d}")).expect("materialize: mkdir");
        }
        for (p, data) in &img.files {
            std::fs::write(format!("{root}/{p}"), data).expect("materialize: write");
        }
    });
}

/// Starts tracking `root`: everything currently below it is the durable base state.
pub fn set_root(root: &str) {
    let base = scan_dir(root);
    let mut names = HashMap::new();
    let mut next_ino = 1;
    for p in base.files.keys() {
        names.insert(p.clone(), next_ino);
        next_ino += 1;
    }
    let dirs = base.dirs.clone();
    let fs = Fs {
        root: root.to_string(),
        next_ino,
        names,
        dirs,
        fds: HashMap::new(),
        journal: Vec::new(),
        base,
        fault: None,
        fault_calls: 0,
        fault_fired: None,
        counts: BTreeMap::new(),
        call_trace: Vec::new(),
        trace_calls: false,
        fault_paused: false,
    };
    let mut g = FS.lock().unwrap();
    for t in &TRACKED {
        t.store(0, Ordering::SeqCst);
    }
    *g = Some(fs);
    ACTIVE.store(true, Ordering::SeqCst);
}

pub fn clear_root() {
    ACTIVE.store(false, Ordering::SeqCst);
    let mut g = FS.lock().unwrap();
    *g = None;
}

pub struct Journal {
    pub root: String,
    pub base: Image,
    /// inode numbers assigned to base files (path -> ino)
    pub base_inos: BTreeMap<String, Ino>,
    pub events: Vec<Rec>,
}

/// Snapshot of the journal so far.
pub fn journal() -> Journal {
    let g = FS.lock().unwrap();
    let fs = g.as_ref().expect("simfs not active");
    let mut base_inos = BTreeMap::new();
    let mut ino = 1;
    for p in fs.base.files.keys() {
        base_inos.insert(p.clone(), ino);
        ino += 1;
    }
    Journal {
        root: fs.root.clone(),
        base: fs.base.clone(),
        base_inos,
        events: fs.journal.clone(),
    }
}

pub fn journal_len() -> usize {
    let g = FS.lock().unwrap();
    g.as_ref().map_or(0, |fs| fs.journal.len())
}

pub fn mark(s: &str) {
    if !ACTIVE.load(Ordering::Relaxed) {
        return;
    }
    let mut g = FS.lock().unwrap();
    if let Some(fs) = g.as_mut() {
        fs.journal.push(Rec {
            ev: Ev::Mark(s.to_string()),
            thread: thread_id(),
        });
    }
}

pub fn arm_fault(plan: FaultPlan) {
    let mut g = FS.lock().unwrap();
    if let Some(fs) = g.as_mut() {
        fs.fault = Some(plan);
        fs.fault_calls = 0;
        fs.fault_fired = None;
        fs.call_trace.clear();
    }
}

/// Starts counting calls without injecting anything (dry run to learn `n`).
pub fn start_counting(count_reads: bool) {
    let mut g = FS.lock().unwrap();
    if let Some(fs) = g.as_mut() {
        fs.fault = Some(FaultPlan {
            at_call: u64::MAX,
            kind: FaultKind::Errno(0),
            count_reads,
        });
        fs.fault_calls = 0;
        fs.fault_fired = None;
        fs.call_trace.clear();
        fs.trace_calls = true;
    }
}

/// Suspends / resumes fault counting (operations that are not fault targets, e.g. reopen).
pub fn pause_fault(p: bool) {
    let mut g = FS.lock().unwrap();
    if let Some(fs) = g.as_mut() {
        fs.fault_paused = p;
    }
}

pub fn fault_fired() -> Option<(CallClass, String)> {
    let g = FS.lock().unwrap();
    g.as_ref().and_then(|fs| fs.fault_fired.clone())
}

pub fn disarm_fault() -> FaultReport {
    let mut g = FS.lock().unwrap();
    if let Some(fs) = g.as_mut() {
        let r = FaultReport {
            armed: fs.fault.is_some(),
            calls_seen: fs.fault_calls,
            fired: fs.fault_fired.take(),
        };
        fs.fault = None;
        fs.trace_calls = false;
        r
    } else {
        FaultReport::default()
    }
}

pub fn take_call_trace() -> Vec<(CallClass, String)> {
    let mut g = FS.lock().unwrap();
    g.as_mut()
        .map(|fs| std::mem::take(&mut fs.call_trace))
        .unwrap_or_default()
}

pub fn call_counts() -> BTreeMap<CallClass, u64> {
    let g = FS.lock().unwrap();
    g.as_ref().map(|fs| fs.counts.clone()).unwrap_or_default()
}

impl Fs {
    /// Decides whether the current counted call is the one to fail.
    fn fault_check(&mut self, class: CallClass, path: &str) -> Option<FaultKind> {
        *self.counts.entry(class).or_insert(0) += 1;
        if self.fault_paused {
            return None;
        }
        let plan = self.fault.as_ref()?;
        let is_read = matches!(class, CallClass::OpenExisting | CallClass::Read);
        if is_read && !plan.count_reads {
            return None;
        }
        let idx = self.fault_calls;
        self.fault_calls += 1;
        if self.trace_calls {
            self.call_trace.push((class, path.to_string()));
        }
        if self.fault_fired.is_none() && idx == plan.at_call {
            let kind = plan.kind;
            // a fault kind must be legal for the call class, otherwise it does not fire
            let kind = match kind {
                FaultKind::Io { prefer_enospc } => {
                    let e = match class {
                        CallClass::Create
                        | CallClass::Write
                        | CallClass::Mkdir
                        | CallClass::Rename
                        | CallClass::Trunc
                            if prefer_enospc =>
                        {
                            libc::ENOSPC
                        }
                        _ => libc::EIO,
                    };
                    FaultKind::Errno(e)
                }
                k => k,
            };
            let legal = match kind {
                FaultKind::Io { .. } => false,
                FaultKind::Errno(_) => true,
                FaultKind::ShortWrite => class == CallClass::Write,
                FaultKind::Eintr => matches!(
                    class,
                    CallClass::Write | CallClass::Read | CallClass::OpenExisting | CallClass::Create
                ),
            };
            if legal {
                self.fault_fired = Some((class, path.to_string()));
                return Some(kind);
            }
        }
        None
    }

    fn push(&mut self, ev: Ev) {
        self.journal.push(Rec {
            ev,
            thread: thread_id(),
        });
    }

    fn path_of_ino(&self, ino: Ino) -> String {
        self.names
            .iter()
            .find(|(_, &i)| i == ino)
            .map(|(p, _)| p.clone())
            .unwrap_or_else(|| format!("<ino {ino}>"))
    }
}

unsafe fn cpath<'a>(p: *const c_char) -> Option<&'a str> {
    if p.is_null() {
        return None;
    }
    CStr::from_ptr(p).to_str().ok()
}

fn track_fd(fd: c_int) {
    if fd >= 0 && (fd as usize) < MAX_FD {
        TRACKED[fd as usize].store(1, Ordering::SeqCst);
    }
}

fn is_tracked(fd: c_int) -> bool {
    fd >= 0 && (fd as usize) < MAX_FD && TRACKED[fd as usize].load(Ordering::Relaxed) != 0
}

fn harness_error(msg: &str) -> ! {
    // exit code 2 = harness error; never a violation
    let s = format!("HARNESS-ERROR simfs: {msg}\n");
    unsafe {
        libc::syscall(libc::SYS_write, 2, s.as_ptr(), s.len());
        libc::_exit(2);
    }
}

//
// open family
//

unsafe fn do_open(dirfd: c_int, path: *const c_char, flags: c_int, mode: mode_t) -> c_int {
    let raw = |flags: c_int| -> c_int {
        libc::syscall(libc::SYS_openat, dirfd, path, flags, mode as libc::c_uint) as c_int
    };
    if !ACTIVE.load(Ordering::Relaxed) || bypassed() {
        return raw(flags);
    }
    let Some(p) = cpath(path) else {
        return raw(flags);
    };
    let relp = {
        let g = FS.lock().unwrap();
        match g.as_ref().and_then(|fs| rel(&fs.root, p)) {
            Some(r) => r.to_string(),
            None => return raw(flags),
        }
    };
    FS_CALLS.fetch_add(1, Ordering::Relaxed);
    let creating = flags & libc::O_CREAT != 0;
    let writing = flags & (libc::O_WRONLY | libc::O_RDWR) != 0;
    if creating || writing {
        fs_yield("fs:open_w");
    }

    let mut g = FS.lock().unwrap();
    let fs = g.as_mut().unwrap();
    let exists = fs.names.contains_key(&relp);
    let is_dir = fs.dirs.contains(&relp) || relp.is_empty();

    if is_dir {
        drop(g);
        let fd = raw(flags);
        if fd >= 0 {
            let mut g = FS.lock().unwrap();
            g.as_mut().unwrap().fds.insert(fd, FdEnt::Dir(relp));
            track_fd(fd);
        }
        return fd;
    }

    let class = if creating && !exists {
        CallClass::Create
    } else {
        CallClass::OpenExisting
    };
    if let Some(kind) = fs.fault_check(class, &relp) {
        match kind {
            FaultKind::Errno(e) => {
                errno_set(e);
                return -1;
            }
            FaultKind::Eintr => {
                errno_set(libc::EINTR);
                return -1;
            }
            FaultKind::ShortWrite | FaultKind::Io { .. } => {}
        }
    }
    drop(g);

    let fd = raw(flags);
    if fd < 0 {
        return fd;
    }
    let mut g = FS.lock().unwrap();
    let fs = g.as_mut().unwrap();
    let ino = if let Some(&ino) = fs.names.get(&relp) {
        if flags & libc::O_TRUNC != 0 && writing {
            fs.push(Ev::Trunc { ino, len: 0 });
        }
        ino
    } else if creating {
        let ino = fs.next_ino;
        fs.next_ino += 1;
        fs.names.insert(relp.clone(), ino);
        fs.push(Ev::Create {
            path: relp.clone(),
            ino,
        });
        ino
    } else {
        // opened something we did not know (should not happen): treat as untracked
        return fd;
    };
    fs.fds.insert(fd, FdEnt::File(ino));
    track_fd(fd);
    fd
}

#[no_mangle]
pub unsafe extern "C" fn open(path: *const c_char, flags: c_int, mode: mode_t) -> c_int {
    do_open(libc::AT_FDCWD, path, flags, mode)
}

#[no_mangle]
pub unsafe extern "C" fn open64(path: *const c_char, flags: c_int, mode: mode_t) -> c_int {
    do_open(libc::AT_FDCWD, path, flags, mode)
}

#[no_mangle]
pub unsafe extern "C" fn openat(
    dirfd: c_int,
    path: *const c_char,
    flags: c_int,
    mode: mode_t,
) -> c_int {
    do_open(dirfd, path, flags, mode)
}

#[no_mangle]
pub unsafe extern "C" fn openat64(
    dirfd: c_int,
    path: *const c_char,
    flags: c_int,
    mode: mode_t,
) -> c_int {
    do_open(dirfd, path, flags, mode)
}

#[no_mangle]
pub unsafe extern "C" fn creat(path: *const c_char, mode: mode_t) -> c_int {
    do_open(
        libc::AT_FDCWD,
        path,
        libc::O_CREAT | libc::O_WRONLY | libc::O_TRUNC,
        mode,
    )
}

#[no_mangle]
pub unsafe extern "C" fn close(fd: c_int) -> c_int {
    if is_tracked(fd) {
        TRACKED[fd as usize].store(0, Ordering::SeqCst);
        if let Ok(mut g) = FS.lock() {
            if let Some(fs) = g.as_mut() {
                fs.fds.remove(&fd);
            }
        }
    }
    libc::syscall(libc::SYS_close, fd) as c_int
}

//
// data path
//

unsafe fn tracked_ino(fd: c_int) -> Option<Ino> {
    if !is_tracked(fd) || bypassed() {
        return None;
    }
    let g = FS.lock().unwrap();
    match g.as_ref()?.fds.get(&fd)? {
        FdEnt::File(ino) => Some(*ino),
        FdEnt::Dir(_) => None,
    }
}

unsafe fn do_write(fd: c_int, buf: *const c_void, count: size_t, off: Option<off_t>) -> ssize_t {
    let raw = |n: size_t| -> ssize_t {
        match off {
            None => libc::syscall(libc::SYS_write, fd, buf, n) as ssize_t,
            Some(o) => libc::syscall(libc::SYS_pwrite64, fd, buf, n, o) as ssize_t,
        }
    };
    let Some(ino) = tracked_ino(fd) else {
        return raw(count);
    };
    FS_CALLS.fetch_add(1, Ordering::Relaxed);
    fs_yield("fs:write");
    let mut n = count;
    {
        let mut g = FS.lock().unwrap();
        let fs = g.as_mut().unwrap();
        let p = fs.path_of_ino(ino);
        if let Some(kind) = fs.fault_check(CallClass::Write, &p) {
            match kind {
                FaultKind::Errno(e) => {
                    errno_set(e);
                    return -1;
                }
                FaultKind::Eintr => {
                    errno_set(libc::EINTR);
                    return -1;
                }
                FaultKind::ShortWrite => {
                    if count > 1 {
                        n = count / 2;
                    }
                }
                FaultKind::Io { .. } => {}
            }
        }
    }
    let pos = match off {
        Some(o) => o as u64,
        None => libc::syscall(libc::SYS_lseek, fd, 0, libc::SEEK_CUR) as u64,
    };
    let r = raw(n);
    if r > 0 {
        let data = std::slice::from_raw_parts(buf.cast::<u8>(), r as usize).to_vec();
        let mut g = FS.lock().unwrap();
        g.as_mut().unwrap().push(Ev::Write {
            ino,
            off: pos,
            data,
        });
    }
    r
}

#[no_mangle]
pub unsafe extern "C" fn write(fd: c_int, buf: *const c_void, count: size_t) -> ssize_t {
    do_write(fd, buf, count, None)
}

#[no_mangle]
pub unsafe extern "C" fn pwrite64(
    fd: c_int,
    buf: *const c_void,
    count: size_t,
    off: off_t,
) -> ssize_t {
    do_write(fd, buf, count, Some(off))
}

#[no_mangle]
pub unsafe extern "C" fn pwrite(
    fd: c_int,
    buf: *const c_void,
    count: size_t,
    off: off_t,
) -> ssize_t {
    do_write(fd, buf, count, Some(off))
}

#[no_mangle]
pub unsafe extern "C" fn writev(fd: c_int, iov: *const libc::iovec, iovcnt: c_int) -> ssize_t {
    if tracked_ino(fd).is_some() {
        // Model vectored writes as a write of the first non-empty buffer (a legal short write).
        for i in 0..iovcnt {
            let v = &*iov.add(i as usize);
            if v.iov_len > 0 {
                return do_write(fd, v.iov_base, v.iov_len, None);
            }
        }
        return 0;
    }
    libc::syscall(libc::SYS_writev, fd, iov, iovcnt) as ssize_t
}

unsafe fn read_fault(fd: c_int) -> Option<ssize_t> {
    let ino = tracked_ino(fd)?;
    let mut g = FS.lock().unwrap();
    let fs = g.as_mut()?;
    fs.fault.as_ref()?;
    let p = fs.path_of_ino(ino);
    match fs.fault_check(CallClass::Read, &p)? {
        FaultKind::Errno(e) => {
            errno_set(e);
            Some(-1)
        }
        FaultKind::Eintr => {
            errno_set(libc::EINTR);
            Some(-1)
        }
        FaultKind::ShortWrite | FaultKind::Io { .. } => None,
    }
}

#[no_mangle]
pub unsafe extern "C" fn read(fd: c_int, buf: *mut c_void, count: size_t) -> ssize_t {
    if is_tracked(fd) {
        if let Some(r) = read_fault(fd) {
            return r;
        }
    }
    libc::syscall(libc::SYS_read, fd, buf, count) as ssize_t
}

#[no_mangle]
pub unsafe extern "C" fn pread64(
    fd: c_int,
    buf: *mut c_void,
    count: size_t,
    off: off_t,
) -> ssize_t {
    if is_tracked(fd) {
        if let Some(r) = read_fault(fd) {
            return r;
        }
    }
    libc::syscall(libc::SYS_pread64, fd, buf, count, off) as ssize_t
}

#[no_mangle]
pub unsafe extern "C" fn pread(fd: c_int, buf: *mut c_void, count: size_t, off: off_t) -> ssize_t {
    pread64(fd, buf, count, off)
}

unsafe fn do_fsync(fd: c_int, sysno: libc::c_long) -> c_int {
    if !is_tracked(fd) || bypassed() {
        return libc::syscall(sysno, fd) as c_int;
    }
    FS_CALLS.fetch_add(1, Ordering::Relaxed);
    fs_yield("fs:fsync");
    {
        let mut g = FS.lock().unwrap();
        let fs = g.as_mut().unwrap();
        let (class, what, ev) = match fs.fds.get(&fd) {
            Some(FdEnt::File(ino)) => {
                let ino = *ino;
                (CallClass::Fsync, fs.path_of_ino(ino), Ev::Fsync { ino })
            }
            Some(FdEnt::Dir(p)) => (
                CallClass::FsyncDir,
                p.clone(),
                Ev::FsyncDir { path: p.clone() },
            ),
            None => return libc::syscall(sysno, fd) as c_int,
        };
        if let Some(FaultKind::Errno(e)) = fs.fault_check(class, &what) {
            errno_set(e);
            return -1;
        }
        fs.push(ev);
    }
    // tmpfs fsync is a no-op; the durability model lives in the journal
    0
}

#[no_mangle]
pub unsafe extern "C" fn fsync(fd: c_int) -> c_int {
    do_fsync(fd, libc::SYS_fsync)
}

#[no_mangle]
pub unsafe extern "C" fn fdatasync(fd: c_int) -> c_int {
    do_fsync(fd, libc::SYS_fdatasync)
}

unsafe fn do_ftruncate(fd: c_int, len: off_t) -> c_int {
    if let Some(ino) = tracked_ino(fd) {
        FS_CALLS.fetch_add(1, Ordering::Relaxed);
        let mut g = FS.lock().unwrap();
        let fs = g.as_mut().unwrap();
        let p = fs.path_of_ino(ino);
        if let Some(FaultKind::Errno(e)) = fs.fault_check(CallClass::Trunc, &p) {
            errno_set(e);
            return -1;
        }
        fs.push(Ev::Trunc {
            ino,
            len: len as u64,
        });
    }
    libc::syscall(libc::SYS_ftruncate, fd, len) as c_int
}

#[no_mangle]
pub unsafe extern "C" fn ftruncate(fd: c_int, len: off_t) -> c_int {
    do_ftruncate(fd, len)
}

#[no_mangle]
pub unsafe extern "C" fn ftruncate64(fd: c_int, len: off_t) -> c_int {
    do_ftruncate(fd, len)
}

//
// namespace
//

unsafe fn tracked_rel(path: *const c_char) -> Option<String> {
    if !ACTIVE.load(Ordering::Relaxed) || bypassed() {
        return None;
    }
    let p = cpath(path)?;
    let g = FS.lock().unwrap();
    let fs = g.as_ref()?;
    rel(&fs.root, p).map(str::to_string)
}

unsafe fn do_rename(
    olddirfd: c_int,
    old: *const c_char,
    newdirfd: c_int,
    new: *const c_char,
    flags: libc::c_uint,
) -> c_int {
    let raw = || -> c_int {
        if flags == 0 {
            libc::syscall(libc::SYS_renameat, olddirfd, old, newdirfd, new) as c_int
        } else {
            libc::syscall(libc::SYS_renameat2, olddirfd, old, newdirfd, new, flags) as c_int
        }
    };
    let (Some(from), Some(to)) = (tracked_rel(old), tracked_rel(new)) else {
        return raw();
    };
    FS_CALLS.fetch_add(1, Ordering::Relaxed);
    fs_yield("fs:rename");
    {
        let mut g = FS.lock().unwrap();
        let fs = g.as_mut().unwrap();
        if let Some(FaultKind::Errno(e)) = fs.fault_check(CallClass::Rename, &to) {
            errno_set(e);
            return -1;
        }
    }
    let r = raw();
    if r == 0 {
        let mut g = FS.lock().unwrap();
        let fs = g.as_mut().unwrap();
        if let Some(ino) = fs.names.remove(&from) {
            fs.names.insert(to.clone(), ino);
        }
        fs.push(Ev::Rename { from, to });
    }
    r
}

#[no_mangle]
pub unsafe extern "C" fn rename(old: *const c_char, new: *const c_char) -> c_int {
    do_rename(libc::AT_FDCWD, old, libc::AT_FDCWD, new, 0)
}

#[no_mangle]
pub unsafe extern "C" fn renameat(
    olddirfd: c_int,
    old: *const c_char,
    newdirfd: c_int,
    new: *const c_char,
) -> c_int {
    do_rename(olddirfd, old, newdirfd, new, 0)
}

#[no_mangle]
pub unsafe extern "C" fn renameat2(
    olddirfd: c_int,
    old: *const c_char,
    newdirfd: c_int,
    new: *const c_char,
    flags: libc::c_uint,
) -> c_int {
    if flags != 0 && tracked_rel(new).is_some() {
        harness_error("renameat2 with flags below tracked root is not modelled");
    }
    do_rename(olddirfd, old, newdirfd, new, flags)
}

unsafe fn do_unlink(dirfd: c_int, path: *const c_char, flags: c_int) -> c_int {
    let raw = || libc::syscall(libc::SYS_unlinkat, dirfd, path, flags) as c_int;
    let Some(relp) = tracked_rel(path) else {
        return raw();
    };
    FS_CALLS.fetch_add(1, Ordering::Relaxed);
    fs_yield("fs:unlink");
    {
        let mut g = FS.lock().unwrap();
        let fs = g.as_mut().unwrap();
        if let Some(FaultKind::Errno(e)) = fs.fault_check(CallClass::Unlink, &relp) {
            errno_set(e);
            return -1;
        }
    }
    let r = raw();
    if r == 0 {
        let mut g = FS.lock().unwrap();
        let fs = g.as_mut().unwrap();
        if flags & libc::AT_REMOVEDIR != 0 {
            fs.dirs.remove(&relp);
            fs.push(Ev::Rmdir { path: relp });
        } else {
            fs.names.remove(&relp);
            fs.push(Ev::Unlink { path: relp });
        }
    }
    r
}

#[no_mangle]
pub unsafe extern "C" fn unlink(path: *const c_char) -> c_int {
    do_unlink(libc::AT_FDCWD, path, 0)
}

#[no_mangle]
pub unsafe extern "C" fn unlinkat(dirfd: c_int, path: *const c_char, flags: c_int) -> c_int {
    if dirfd != libc::AT_FDCWD && is_tracked(dirfd) {
        harness_error("unlinkat relative to a tracked directory fd is not modelled");
    }
    do_unlink(dirfd, path, flags)
}

#[no_mangle]
pub unsafe extern "C" fn rmdir(path: *const c_char) -> c_int {
    do_unlink(libc::AT_FDCWD, path, libc::AT_REMOVEDIR)
}

unsafe fn do_mkdir(dirfd: c_int, path: *const c_char, mode: mode_t) -> c_int {
    let raw = || libc::syscall(libc::SYS_mkdirat, dirfd, path, mode as libc::c_uint) as c_int;
    let Some(relp) = tracked_rel(path) else {
        return raw();
    };
    FS_CALLS.fetch_add(1, Ordering::Relaxed);
    {
        let mut g = FS.lock().unwrap();
        let fs = g.as_mut().unwrap();
        if fs.dirs.contains(&relp) || relp.is_empty() {
            drop(g);
            return raw(); // EEXIST from the kernel
        }
        if let Some(FaultKind::Errno(e)) = fs.fault_check(CallClass::Mkdir, &relp) {
            errno_set(e);
            return -1;
        }
    }
    let r = raw();
    if r == 0 {
        let mut g = FS.lock().unwrap();
        let fs = g.as_mut().unwrap();
        fs.dirs.insert(relp.clone());
        fs.push(Ev::Mkdir { path: relp });
    }
    r
}

#[no_mangle]
pub unsafe extern "C" fn mkdir(path: *const c_char, mode: mode_t) -> c_int {
    do_mkdir(libc::AT_FDCWD, path, mode)
}

#[no_mangle]
pub unsafe extern "C" fn mkdirat(dirfd: c_int, path: *const c_char, mode: mode_t) -> c_int {
    do_mkdir(dirfd, path, mode)
}

//
// Calls the durability model does not understand: harness error if they touch the tracked root.
//

#[no_mangle]
pub unsafe extern "C" fn fallocate(fd: c_int, mode: c_int, off: off_t, len: off_t) -> c_int {
    if is_tracked(fd) && !bypassed() {
        harness_error("fallocate on tracked file is not modelled");
    }
    libc::syscall(libc::SYS_fallocate, fd, mode, off, len) as c_int
}

#[no_mangle]
pub unsafe extern "C" fn posix_fallocate(fd: c_int, off: off_t, len: off_t) -> c_int {
    if is_tracked(fd) && !bypassed() {
        harness_error("posix_fallocate on tracked file is not modelled");
    }
    let r = libc::syscall(libc::SYS_fallocate, fd, 0, off, len) as c_int;
    if r == 0 {
        0
    } else {
        *libc::__errno_location()
    }
}

#[no_mangle]
pub unsafe extern "C" fn truncate(path: *const c_char, len: off_t) -> c_int {
    if tracked_rel(path).is_some() {
        harness_error("truncate(path) below tracked root is not modelled");
    }
    libc::syscall(libc::SYS_truncate, path, len) as c_int
}

#[no_mangle]
pub unsafe extern "C" fn link(old: *const c_char, new: *const c_char) -> c_int {
    if tracked_rel(new).is_some() {
        harness_error("link below tracked root is not modelled");
    }
    libc::syscall(
        libc::SYS_linkat,
        libc::AT_FDCWD,
        old,
        libc::AT_FDCWD,
        new,
        0,
    ) as c_int
}

#[no_mangle]
pub unsafe extern "C" fn linkat(
    olddirfd: c_int,
    old: *const c_char,
    newdirfd: c_int,
    new: *const c_char,
    flags: c_int,
) -> c_int {
    if tracked_rel(new).is_some() {
        harness_error("linkat below tracked root is not modelled");
    }
    libc::syscall(libc::SYS_linkat, olddirfd, old, newdirfd, new, flags) as c_int
}

#[no_mangle]
pub unsafe extern "C" fn symlink(target: *const c_char, linkpath: *const c_char) -> c_int {
    if tracked_rel(linkpath).is_some() {
        harness_error("symlink below tracked root is not modelled");
    }
    libc::syscall(libc::SYS_symlinkat, target, libc::AT_FDCWD, linkpath) as c_int
}

#[no_mangle]
pub unsafe extern "C" fn copy_file_range(
    fd_in: c_int,
    off_in: *mut off_t,
    fd_out: c_int,
    off_out: *mut off_t,
    len: size_t,
    flags: libc::c_uint,
) -> ssize_t {
    if is_tracked(fd_out) && !bypassed() {
        harness_error("copy_file_range into tracked file is not modelled");
    }
    libc::syscall(
        libc::SYS_copy_file_range,
        fd_in,
        off_in,
        fd_out,
        off_out,
        len,
        flags,
    ) as ssize_t
}

#[no_mangle]
pub unsafe extern "C" fn sendfile(
    out_fd: c_int,
    in_fd: c_int,
    offset: *mut off_t,
    count: size_t,
) -> ssize_t {
    if is_tracked(out_fd) && !bypassed() {
        harness_error("sendfile into tracked file is not modelled");
    }
    libc::syscall(libc::SYS_sendfile, out_fd, in_fd, offset, count) as ssize_t
}

#[no_mangle]
pub unsafe extern "C" fn dup(fd: c_int) -> c_int {
    if is_tracked(fd) && !bypassed() {
        harness_error("dup of tracked fd is not modelled");
    }
    libc::syscall(libc::SYS_dup, fd) as c_int
}

//
// Crash-image synthesis (pure function of the journal)
//

#[derive(Clone, Copy, Debug, PartialEq, Eq)]
pub enum CrashMode {
    /// Nothing that was not made durable survives.
    Strict,
    /// Everything issued before the crash survives.
    Lucky,
    /// Everything issued up to event `c` survives (ordered, journaling-fs-like), plus all durable state.
    OrderedPrefix(usize),
    /// Every pending dirent operation independently, data as a random prefix with torn tail.
    Random(u64),
}

#[derive(Clone, Debug, Default)]
pub struct ImageInfo {
    pub pending_dirent_ops: usize,
    pub pending_data_writes: usize,
    pub dirent_ops_dropped: usize,
    pub data_writes_dropped: usize,
    pub torn_writes: usize,
    pub zero_extended: usize,
    /// names whose binding differs from the live state at the crash point
    pub deviating_names: Vec<String>,
}

#[derive(Clone)]
enum DataOp {
    Write { seq: usize, off: u64, data: Vec<u8> },
    Trunc { seq: usize, len: u64 },
}

#[derive(Clone, Default)]
struct InoState {
    durable: Vec<u8>,
    pending: Vec<DataOp>,
}

#[derive(Clone, Copy, PartialEq, Eq, Debug)]
enum Target {
    File(Ino),
    Dir,
    Absent,
}

#[derive(Clone)]
struct DirOp {
    seq: usize,
    /// (name, binding) pairs applied atomically (a rename is two bindings)
    binds: Vec<(String, Target)>,
}

#[derive(Clone, Default)]
struct DirState {
    durable: BTreeMap<String, Target>,
    pending: Vec<DirOp>,
}

fn apply_data(buf: &mut Vec<u8>, op: &DataOp, cut: Option<usize>) {
    match op {
        DataOp::Write { off, data, .. } => {
            let data = match cut {
                Some(c) => &data[..c.min(data.len())],
                None => &data[..],
            };
            let off = *off as usize;
            if buf.len() < off {
                buf.resize(off, 0);
            }
            let end = off + data.len();
            if buf.len() < end {
                buf.resize(end, 0);
            }
            buf[off..end].copy_from_slice(data);
        }
        DataOp::Trunc { len, .. } => {
            buf.resize(*len as usize, 0);
        }
    }
}

/// Computes the directory tree a crash after journal event `k` (exclusive: events `[0, k)` were
/// issued) may leave behind under the given persistence outcome.
pub fn crash_image(j: &Journal, k: usize, mode: CrashMode) -> (Image, ImageInfo) {
    let mut info = ImageInfo::default();
    let mut inos: HashMap<Ino, InoState> = HashMap::new();
    let mut dirs: BTreeMap<String, DirState> = BTreeMap::new();
    // live namespace, to resolve rename sources
    let mut live: HashMap<String, Ino> = HashMap::new();

    dirs.insert(String::new(), DirState::default());
    for d in &j.base.dirs {
        dirs.insert(d.clone(), DirState::default());
    }
    for d in &j.base.dirs {
        dirs.get_mut(parent(d))
            .expect("base parent")
            .durable
            .insert(basename(d).to_string(), Target::Dir);
    }
    for (p, data) in &j.base.files {
        let ino = j.base_inos[p];
        inos.insert(
            ino,
            InoState {
                durable: data.clone(),
                pending: vec![],
            },
        );
        live.insert(p.clone(), ino);
        dirs.get_mut(parent(p))
            .expect("base parent")
            .durable
            .insert(basename(p).to_string(), Target::File(ino));
    }

    for (seq, rec) in j.events.iter().enumerate().take(k) {
        match &rec.ev {
            Ev::Mark(_) => {}
            Ev::Mkdir { path } => {
                dirs.entry(path.clone()).or_default();
                dirs.entry(parent(path).to_string())
                    .or_default()
                    .pending
                    .push(DirOp {
                        seq,
                        binds: vec![(basename(path).to_string(), Target::Dir)],
                    });
            }
            Ev::Rmdir { path } => {
                dirs.entry(parent(path).to_string())
                    .or_default()
                    .pending
                    .push(DirOp {
                        seq,
                        binds: vec![(basename(path).to_string(), Target::Absent)],
                    });
            }
            Ev::Create { path, ino } => {
                inos.insert(*ino, InoState::default());
                live.insert(path.clone(), *ino);
                dirs.entry(parent(path).to_string())
                    .or_default()
                    .pending
                    .push(DirOp {
                        seq,
                        binds: vec![(basename(path).to_string(), Target::File(*ino))],
                    });
            }
            Ev::Trunc { ino, len } => {
                inos.entry(*ino)
                    .or_default()
                    .pending
                    .push(DataOp::Trunc { seq, len: *len });
            }
            Ev::Write { ino, off, data } => {
                inos.entry(*ino).or_default().pending.push(DataOp::Write {
                    seq,
                    off: *off,
                    data: data.clone(),
                });
            }
            Ev::Fsync { ino } => {
                let st = inos.entry(*ino).or_default();
                let mut buf = std::mem::take(&mut st.durable);
                for op in &st.pending {
                    apply_data(&mut buf, op, None);
                }
                st.durable = buf;
                st.pending.clear();
            }
            Ev::FsyncDir { path } => {
                let st = dirs.entry(path.clone()).or_default();
                let pending = std::mem::take(&mut st.pending);
                for op in pending {
                    for (name, t) in op.binds {
                        if t == Target::Absent {
                            st.durable.remove(&name);
                        } else {
                            st.durable.insert(name, t);
                        }
                    }
                }
            }
            Ev::Rename { from, to } => {
                if let Some(ino) = live.remove(from) {
                    live.insert(to.clone(), ino);
                    let pf = parent(from).to_string();
                    let pt = parent(to).to_string();
                    if pf == pt {
                        dirs.entry(pf).or_default().pending.push(DirOp {
                            seq,
                            binds: vec![
                                (basename(from).to_string(), Target::Absent),
                                (basename(to).to_string(), Target::File(ino)),
                            ],
                        });
                    } else {
                        dirs.entry(pf).or_default().pending.push(DirOp {
                            seq,
                            binds: vec![(basename(from).to_string(), Target::Absent)],
                        });
                        dirs.entry(pt).or_default().pending.push(DirOp {
                            seq,
                            binds: vec![(basename(to).to_string(), Target::File(ino))],
                        });
                    }
                }
            }
            Ev::Unlink { path } => {
                live.remove(path);
                dirs.entry(parent(path).to_string())
                    .or_default()
                    .pending
                    .push(DirOp {
                        seq,
                        binds: vec![(basename(path).to_string(), Target::Absent)],
                    });
            }
        }
    }

    let mut rng = match mode {
        CrashMode::Random(s) => Some(crate::rng::Rng::new(s)),
        _ => None,
    };

    // resolve names
    let mut resolved: BTreeMap<String, BTreeMap<String, Target>> = BTreeMap::new();
    for (d, st) in &dirs {
        let mut names = st.durable.clone();
        let mut live_names = st.durable.clone();
        for op in &st.pending {
            info.pending_dirent_ops += 1;
            for (name, t) in &op.binds {
                if *t == Target::Absent {
                    live_names.remove(name);
                } else {
                    live_names.insert(name.clone(), *t);
                }
            }
            let applied = match mode {
                CrashMode::Strict => false,
                CrashMode::Lucky => true,
                CrashMode::OrderedPrefix(c) => op.seq < c,
                CrashMode::Random(_) => rng.as_mut().unwrap().chance(1, 2),
            };
            if applied {
                for (name, t) in &op.binds {
                    if *t == Target::Absent {
                        names.remove(name);
                    } else {
                        names.insert(name.clone(), *t);
                    }
                }
            } else {
                info.dirent_ops_dropped += 1;
            }
        }
        let all: BTreeSet<&String> = names.keys().chain(live_names.keys()).collect();
        for n in all {
            if names.get(n) != live_names.get(n) {
                info.deviating_names.push(if d.is_empty() {
                    n.clone()
                } else {
                    format!("{d}/{n}")
                });
            }
        }
        resolved.insert(d.clone(), names);
    }

    // resolve file contents
    let mut content: HashMap<Ino, Vec<u8>> = HashMap::new();
    let mut ino_ids: Vec<Ino> = inos.keys().copied().collect();
    ino_ids.sort_unstable();
    for ino in ino_ids {
        let st = &inos[&ino];
        let mut buf = st.durable.clone();
        let n = st.pending.len();
        info.pending_data_writes += n;
        if n > 0 {
            let (keep, torn): (usize, Option<usize>) = match mode {
                CrashMode::Strict => (0, None),
                CrashMode::Lucky => (n, None),
                CrashMode::OrderedPrefix(c) => (
                    st.pending
                        .iter()
                        .take_while(|op| match op {
                            DataOp::Write { seq, .. } | DataOp::Trunc { seq, .. } => *seq < c,
                        })
                        .count(),
                    None,
                ),
                CrashMode::Random(_) => {
                    let r = rng.as_mut().unwrap();
                    let keep = r.usize(n + 1);
                    let torn = if keep < n && r.chance(1, 2) {
                        match &st.pending[keep] {
                            DataOp::Write { data, .. } if data.len() > 1 => {
                                Some(1 + r.usize(data.len() - 1))
                            }
                            _ => None,
                        }
                    } else {
                        None
                    };
                    (keep, torn)
                }
            };
            for op in &st.pending[..keep] {
                apply_data(&mut buf, op, None);
            }
            if let Some(cut) = torn {
                apply_data(&mut buf, &st.pending[keep], Some(cut));
                info.torn_writes += 1;
            }
            info.data_writes_dropped += n - keep;
            if let CrashMode::Random(_) = mode {
                let r = rng.as_mut().unwrap();
                if keep < n && r.chance(1, 8) {
                    // size-without-data: length reached its final value, bytes are zero
                    let mut full = buf.clone();
                    for op in &st.pending[keep..] {
                        apply_data(&mut full, op, None);
                    }
                    if full.len() > buf.len() {
                        buf.resize(full.len(), 0);
                        info.zero_extended += 1;
                    }
                }
            }
        }
        content.insert(ino, buf);
    }

    // build image top-down (a directory that does not exist hides everything below it)
    let mut img = Image::default();
    fn build(
        d: &str,
        resolved: &BTreeMap<String, BTreeMap<String, Target>>,
        content: &HashMap<Ino, Vec<u8>>,
        img: &mut Image,
    ) {
        let Some(names) = resolved.get(d) else { return };
        for (n, t) in names {
            let p = if d.is_empty() {
                n.clone()
            } else {
                format!("{d}/{n}")
            };
            match t {
                Target::Dir => {
                    img.dirs.insert(p.clone());
                    build(&p, resolved, content, img);
                }
                Target::File(ino) => {
                    img.files
                        .insert(p, content.get(ino).cloned().unwrap_or_default());
                }
                Target::Absent => {}
            }
        }
    }
    build("", &resolved, &content, &mut img);
    (img, info)
}

/// Human-readable one-line rendering of an event (temp names normalised).
pub fn describe(ev: &Ev) -> String {
    fn norm(p: &str) -> String {
        let b = basename(p);
        if b.starts_with(".tmp") {
            let d = parent(p);
            if d.is_empty() {
                ".tmp#".to_string()
            } else {
                format!("{d}/.tmp#")
            }
        } else {
            p.to_string()
        }
    }
    match ev {
        Ev::Mkdir { path } => format!("mkdir {path}"),
        Ev::Create { path, ino } => format!("create {} ino={ino}", norm(path)),
        Ev::Trunc { ino, len } => format!("trunc ino={ino} len={len}"),
        Ev::Write { ino, off, data } => format!("write ino={ino} off={off} len={}", data.len()),
        Ev::Fsync { ino } => format!("fsync ino={ino}"),
        Ev::FsyncDir { path } => format!("fsyncdir /{path}"),
        Ev::Rename { from, to } => format!("rename {} -> {}", norm(from), norm(to)),
        Ev::Unlink { path } => format!("unlink {}", norm(path)),
        Ev::Rmdir { path } => format!("rmdir {path}"),
        Ev::Mark(s) => format!("mark {s}"),
    }
}
