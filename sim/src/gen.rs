//! Swarm-style generator: per run it draws a configuration, a key universe, an operation mix
//! and then the operation list, all from the run's single PRNG.

use crate::rng::Rng;
use crate::spec::*;

#[derive(Clone, Copy, Debug, PartialEq, Eq)]
pub enum Tri {
    Never,
    Maybe,
    Always,
}

#[derive(Clone, Debug)]
pub struct Profile {
    pub blob: Tri,
    pub filter_fn: Tri,
    /// once-class keys cycle insert -> weak delete (C13)
    pub weak_deletes: bool,
    /// once-class keys are written exactly once and never deleted (C17 RemoveWeak/Destroy)
    pub once_keys_write_once: bool,
    pub fifo: bool,
    pub min_ops: usize,
    pub max_ops: usize,
    /// weights: write, batch, rotate, flush, flush_active, leveled, major, movedown, pulldown,
    /// drop_range, clear, ingest, reopen, snap_open, snap_close, scan, prefix, clock
    pub w: [u32; 18],
    pub tiny_everything: bool,
    /// allow bulk ingestion when the tree is key-value separated
    pub blob_ingest: bool,
    /// a key class `x~…` that is overwritten *and* weakly deleted without discipline; excluded
    /// from model comparisons (used where only model-independent audits are decisive)
    pub wild_weak_deletes: bool,
    /// a quarter of the runs start with a prelude that spreads one blob file over many
    /// single-key tables in the last level (writes, flush, major compaction with target size 1),
    /// so that later partial merges meet blob files shared with tables outside the compaction
    pub shared_blob_prelude: bool,
    /// a quarter of the runs start by writing a few hundred small keys in one batch, so that
    /// data blocks with hundreds of restart intervals / large hash indexes / multi-block
    /// filters exist (the usual universe of <= 40 keys never fills a 4 KiB block)
    pub bulk_prelude: bool,
    /// a third of the runs behave like one real deployment of leveled compaction: one fixed
    /// (l0 threshold, table target size, ratio) for the whole run, many keys, long histories of
    /// writes / flushes / leveled compactions only - this is what grows deep multi-table levels
    pub leveled_focus: bool,
    /// no values of 64 KiB and more (C10: every stored byte gets corrupted in the thorough tier,
    /// and the format bytes are what matters there, not long payloads)
    pub no_huge_values: bool,
}

pub const W_WRITE: usize = 0;
pub const W_BATCH: usize = 1;
pub const W_ROTATE: usize = 2;
pub const W_FLUSH: usize = 3;
pub const W_FLUSH_ACTIVE: usize = 4;
pub const W_LEVELED: usize = 5;
pub const W_MAJOR: usize = 6;
pub const W_MOVEDOWN: usize = 7;
pub const W_PULLDOWN: usize = 8;
pub const W_DROP_RANGE: usize = 9;
pub const W_CLEAR: usize = 10;
pub const W_INGEST: usize = 11;
pub const W_REOPEN: usize = 12;
pub const W_SNAP_OPEN: usize = 13;
pub const W_SNAP_CLOSE: usize = 14;
pub const W_SCAN: usize = 15;
pub const W_PREFIX: usize = 16;
pub const W_CLOCK: usize = 17;

impl Profile {
    pub fn base() -> Self {
        let mut w = [0u32; 18];
        w[W_WRITE] = 30;
        w[W_BATCH] = 6;
        w[W_ROTATE] = 4;
        w[W_FLUSH] = 3;
        w[W_FLUSH_ACTIVE] = 10;
        w[W_LEVELED] = 8;
        w[W_MAJOR] = 3;
        w[W_MOVEDOWN] = 1;
        w[W_PULLDOWN] = 2;
        w[W_REOPEN] = 2;
        w[W_CLOCK] = 1;
        Self {
            blob: Tri::Never,
            filter_fn: Tri::Never,
            weak_deletes: false,
            once_keys_write_once: false,
            fifo: false,
            min_ops: 8,
            max_ops: 60,
            w,
            tiny_everything: true,
            blob_ingest: true,
            wild_weak_deletes: false,
            shared_blob_prelude: false,
            bulk_prelude: false,
            leveled_focus: false,
            no_huge_values: false,
        }
    }
}

/// Single-delete / write-once discipline of the once-class keys, tracked through memtable
/// loss: a reopen reverts every key to its last flushed state (lsm-tree has no WAL, so the
/// unflushed write really is gone and the next write must follow the flushed state).
#[derive(Clone, Debug, Default)]
pub struct Discipline {
    /// key -> (puts so far, currently present)
    pub cur: std::collections::BTreeMap<Vec<u8>, (u32, bool)>,
    pub sealed: std::collections::BTreeMap<Vec<u8>, (u32, bool)>,
    pub durable: std::collections::BTreeMap<Vec<u8>, (u32, bool)>,
}

impl Discipline {
    /// Checks and applies one write; `false` = would violate the discipline.
    pub fn write(&mut self, p: &Profile, k: &[u8], kind: WKind) -> bool {
        if k.first() != Some(&b'w') {
            return true;
        }
        let e = self.cur.entry(k.to_vec()).or_insert((0, false));
        match kind {
            WKind::Put => {
                if e.1 || (p.once_keys_write_once && e.0 >= 1) {
                    return false;
                }
                e.0 += 1;
                e.1 = true;
                true
            }
            WKind::WeakDel => {
                if !p.weak_deletes || !e.1 {
                    return false;
                }
                e.1 = false;
                true
            }
            WKind::Del => false,
        }
    }

    /// Tracks the effect of a non-write operation on what is durable.
    pub fn on_op(&mut self, op: &Op) {
        match op {
            Op::Rotate => self.sealed = self.cur.clone(),
            Op::Flush { .. } => self.durable = self.sealed.clone(),
            Op::FlushActive { .. } | Op::Ingest { .. } => {
                self.sealed = self.cur.clone();
                self.durable = self.cur.clone();
            }
            Op::Reopen => {
                self.cur = self.durable.clone();
                self.sealed = self.durable.clone();
            }
            Op::Clear => {
                for m in [&mut self.cur, &mut self.sealed, &mut self.durable] {
                    for v in m.values_mut() {
                        v.1 = false;
                    }
                }
            }
            _ => {}
        }
    }
}

pub struct GenState {
    pub next_value_id: u64,
    pub disc: Discipline,
    pub fifo_counter: u64,
    /// FIFO workloads insert strictly increasing or strictly decreasing keys (both documented)
    pub fifo_descending: bool,
    /// an eighth of the runs also write values of 64 KiB and more (lengths that no longer fit
    /// 16 bits: varint width, block and blob framing)
    pub huge_values: bool,
    /// a sixth of the sequential runs also write the empty value now and then (legal, and the
    /// one value that carries no unique id; the concurrent engine never does)
    pub empty_values: bool,
}

pub fn fifo_key(i: u64, descending: bool) -> Vec<u8> {
    if descending {
        format!("f{:06}", 999_999 - i).into_bytes()
    } else {
        format!("f{i:06}").into_bytes()
    }
}

pub fn gen_keys(r: &mut Rng, n: usize) -> Vec<Bytes> {
    let mut set = std::collections::BTreeSet::new();
    let shapes = r.below(4);
    while set.len() < n {
        let k: Vec<u8> = match r.below(10) {
            0 => vec![b'a' + r.below(22) as u8], // never 'w': that prefix is the once-class
            1 => {
                // long shared prefix
                let mut k = b"prefix/shared/aaaaaaaaaaaaaaaaaaaa/".to_vec();
                k.extend_from_slice(format!("{:02}", r.below(12)).as_bytes());
                k
            }
            2 => {
                // 0xFF tails
                let mut k = vec![b'a' + r.below(4) as u8];
                for _ in 0..=r.below(2) {
                    k.push(0xff);
                }
                k
            }
            3 => {
                let mut k = vec![b'a' + r.below(4) as u8, 0x00];
                if r.chance(1, 2) {
                    k.push(r.below(3) as u8);
                }
                k
            }
            4 if shapes == 0 => vec![0xff],
            5 => {
                // big keys straddle block boundaries with tiny blocks
                let mut k = format!("big{}", r.below(4)).into_bytes();
                k.resize(40 + r.usize(60), b'x');
                k
            }
            _ => format!("k{:02}", r.below(20)).into_bytes(),
        };
        set.insert(k);
    }
    set.into_iter().map(Bytes).collect()
}

pub fn gen_once_keys(r: &mut Rng, n: usize) -> Vec<Bytes> {
    let mut set = std::collections::BTreeSet::new();
    while set.len() < n {
        set.insert(format!("w{:02}", r.below(30)).into_bytes());
    }
    set.into_iter().map(Bytes).collect()
}

pub fn gen_cfg(r: &mut Rng, p: &Profile) -> CfgSpec {
    let blob = match p.blob {
        Tri::Never => false,
        Tri::Always => true,
        Tri::Maybe => r.chance(1, 2),
    };
    let with_filter = match p.filter_fn {
        Tri::Never => false,
        Tri::Always => true,
        Tri::Maybe => r.chance(1, 3),
    };
    let pol = |r: &mut Rng| -> Vec<bool> {
        match r.below(4) {
            0 => vec![false],
            1 => vec![true],
            2 => vec![true, false],
            _ => vec![false, true],
        }
    };
    CfgSpec {
        blob: if blob {
            Some(BlobSpec {
                threshold: *r.pick(&[0u32, 1, 1, 8, 8, 24, 24, 64, 64]),
                file_target: *r.pick(&[1u64, 128, 512, 64 << 20]),
                staleness: *r.pick(&[0.0f32, 0.01, 0.25, 0.5, 1.0]),
                age_cutoff: *r.pick(&[0.0f32, 0.25, 0.5, 1.0]),
                lz4: r.chance(1, 3),
            })
        } else {
            None
        },
        block_size: *r.pick(&[64u32, 128, 256, 1024, 4096, 16384]),
        restart_interval: *r.pick(&[1u8, 2, 3, 16]),
        hash_ratio: *r.pick(&[0.0f32, 0.0, 0.75, 1.33, 8.0]),
        index_part: pol(r),
        filter_part: pol(r),
        pin_index: pol(r),
        pin_filter: pol(r),
        filter: match r.below(5) {
            0 => FilterSpec::None,
            1 => FilterSpec::Bits(1.0),
            2 => FilterSpec::Fpr(0.01),
            3 => FilterSpec::Fpr(0.5),
            _ => FilterSpec::Bits(10.0),
        },
        expect_hits: r.chance(1, 4),
        lz4: r.chance(1, 3),
        cache_bytes: *r.pick(&[0u64, 1024, 16 << 20]),
        fd_table: *r.pick(&[None, Some(1usize), Some(2), Some(256)]),
        filter_fn: if with_filter {
            let mut weights = [4u32, 2, 2, 1, 1, 1];
            if !p.once_keys_write_once {
                weights[4] = 0;
                weights[5] = 0;
            }
            // swarm: knock out some verdict kinds
            for w in weights.iter_mut().skip(1) {
                if r.chance(1, 4) {
                    *w = 0;
                }
            }
            Some(FilterFnSpec {
                salt: r.next_u64(),
                weights,
            })
        } else {
            None
        },
    }
}

pub fn gen_value(st: &mut GenState, r: &mut Rng, cfg: &CfgSpec) -> Bytes {
    st.next_value_id += 1;
    if st.empty_values && r.chance(1, 8) {
        return Bytes(vec![]);
    }
    let id = st.next_value_id;
    let mut v = format!("v{id}:").into_bytes();
    let thr = cfg.blob.as_ref().map_or(32, |b| b.threshold as usize);
    let target = match r.below(10) {
        0..=3 => v.len(),
        4..=5 => thr.saturating_sub(1).max(v.len()),
        6..=7 => thr.max(v.len()) + r.usize(8),
        8 => thr * 2 + 20,
        _ => cfg.block_size as usize + 30,
    };
    let target = if st.huge_values && r.chance(1, 16) {
        65_530 + r.usize(140_000)
    } else {
        target
    };
    let mut i = 0u64;
    while v.len() < target {
        v.push(b'a' + ((id + i) % 26) as u8);
        i += 1;
    }
    Bytes(v)
}

fn gen_wm(r: &mut Rng) -> Wm {
    match r.below(10) {
        0..=3 => Wm::Zero,
        4 => Wm::One,
        5..=7 => Wm::Max,
        _ => Wm::Frac(r.below(256) as u8),
    }
}

fn gen_bound_key(r: &mut Rng, keys: &[Bytes]) -> Bytes {
    let k = r.pick(keys).0.clone();
    match r.below(8) {
        0..=3 => Bytes(k),
        4 => {
            let mut k = k;
            k.push(0);
            Bytes(k)
        }
        5 => Bytes(k[..k.len().saturating_sub(1)].to_vec()),
        6 => {
            let mut k = k[..k.len().saturating_sub(1)].to_vec();
            k.push(0xff);
            Bytes(k)
        }
        _ => {
            let mut k = k;
            if let Some(l) = k.last_mut() {
                *l = l.wrapping_add(1);
            }
            Bytes(k)
        }
    }
}

pub fn gen_bound(r: &mut Rng, keys: &[Bytes]) -> BoundSpec {
    match r.below(5) {
        0 => BoundSpec::Unbounded,
        1 | 2 => BoundSpec::Included(gen_bound_key(r, keys)),
        _ => BoundSpec::Excluded(gen_bound_key(r, keys)),
    }
}

fn gen_word(r: &mut Rng) -> Vec<bool> {
    match r.below(6) {
        0 => vec![true],
        1 => vec![false],
        2 => vec![true, false],
        _ => (0..1 + r.usize(6)).map(|_| r.chance(1, 2)).collect(),
    }
}

fn gen_snap(r: &mut Rng) -> SnapSel {
    match r.below(4) {
        0 => SnapSel::Max,
        1 | 2 => SnapSel::Latest,
        _ => SnapSel::Live(r.usize(4)),
    }
}

fn gen_write_item(
    st: &mut GenState,
    r: &mut Rng,
    cfg: &CfgSpec,
    keys: &[Bytes],
    once: &[Bytes],
    p: &Profile,
) -> WriteItem {
    if !once.is_empty() && r.chance(if p.weak_deletes { 3 } else { 2 }, 6) {
        let k = r.pick(once).clone();
        let present = st.disc.cur.get(&k.0).is_some_and(|e| e.1);
        let kind = if present { WKind::WeakDel } else { WKind::Put };
        if st.disc.write(p, &k.0, kind) {
            let v = if kind == WKind::Put {
                gen_value(st, r, cfg)
            } else {
                Bytes(vec![])
            };
            return WriteItem { k, kind, v };
        }
    }
    if p.wild_weak_deletes && r.chance(1, 4) {
        let k = Bytes(format!("x~{}", r.below(4)).into_bytes());
        return match r.below(5) {
            0 | 1 => WriteItem {
                k,
                kind: WKind::WeakDel,
                v: Bytes(vec![]),
            },
            2 => WriteItem {
                k,
                kind: WKind::Del,
                v: Bytes(vec![]),
            },
            _ => {
                let v = gen_value(st, r, cfg);
                WriteItem {
                    k,
                    kind: WKind::Put,
                    v,
                }
            }
        };
    }
    let k = r.pick(keys).clone();
    if r.chance(1, 4) {
        WriteItem {
            k,
            kind: WKind::Del,
            v: Bytes(vec![]),
        }
    } else {
        let v = gen_value(st, r, cfg);
        WriteItem {
            k,
            kind: WKind::Put,
            v,
        }
    }
}

fn gen_batch(
    st: &mut GenState,
    r: &mut Rng,
    cfg: &CfgSpec,
    keys: &[Bytes],
    n: usize,
) -> Vec<WriteItem> {
    // distinct regular keys within one batch
    let mut used = std::collections::BTreeSet::new();
    let mut items = Vec::new();
    for _ in 0..n {
        let k = r.pick(keys).clone();
        if !used.insert(k.clone()) {
            continue;
        }
        if r.chance(1, 4) {
            items.push(WriteItem {
                k,
                kind: WKind::Del,
                v: Bytes(vec![]),
            });
        } else {
            let v = gen_value(st, r, cfg);
            items.push(WriteItem {
                k,
                kind: WKind::Put,
                v,
            });
        }
    }
    items
}

pub fn gen_op(
    st: &mut GenState,
    r: &mut Rng,
    cfg: &CfgSpec,
    keys: &[Bytes],
    once: &[Bytes],
    p: &Profile,
    weights: &[u32; 18],
) -> Op {
    let tiny = |r: &mut Rng| -> u64 { *r.pick(&[1u64, 64, 256, 1024, 64 << 20]) };
    match r.weighted(weights) {
        W_WRITE => {
            if p.fifo {
                st.fifo_counter += 1;
                let v = gen_value(st, r, cfg);
                Op::Write {
                    items: vec![WriteItem {
                        k: Bytes(fifo_key(st.fifo_counter, st.fifo_descending)),
                        kind: WKind::Put,
                        v,
                    }],
                }
            } else {
                Op::Write {
                    items: vec![gen_write_item(st, r, cfg, keys, once, p)],
                }
            }
        }
        W_BATCH => {
            let n = 2 + r.usize(4);
            let items = gen_batch(st, r, cfg, keys, n);
            Op::Write { items }
        }
        W_ROTATE => Op::Rotate,
        W_FLUSH => Op::Flush { wm: gen_wm(r) },
        W_FLUSH_ACTIVE => Op::FlushActive { wm: gen_wm(r) },
        W_LEVELED if p.fifo => Op::Fifo {
            limit: *r.pick(&[0u64, 300, 800, 1500, 3000, 8000, u64::MAX]),
            ttl: *r.pick(&[None, None, Some(0u64), Some(1), Some(60), Some(3600)]),
            wm: gen_wm(r),
        },
        W_LEVELED => Op::Leveled {
            l0: 1 + r.below(4) as u8,
            target: tiny(r),
            ratio: *r.pick(&[2.0f32, 10.0]),
            wm: gen_wm(r),
        },
        W_MAJOR => Op::Major {
            target: *r.pick(&[1u64, 256, u64::MAX]),
            wm: gen_wm(r),
        },
        W_MOVEDOWN => {
            let from = r.below(5) as u8;
            let to = from + 1 + r.below(u64::from(6 - from)) as u8;
            Op::MoveDown {
                from,
                to,
                wm: gen_wm(r),
            }
        }
        W_PULLDOWN => {
            let from = r.below(5) as u8;
            let to = (from + 1 + r.below(2) as u8).min(6);
            Op::PullDown {
                from,
                to,
                wm: gen_wm(r),
            }
        }
        W_DROP_RANGE => Op::DropRange {
            lo: gen_bound(r, keys),
            hi: gen_bound(r, keys),
        },
        W_CLEAR => Op::Clear,
        W_INGEST => {
            let n = 1 + r.usize(6);
            let mut items = gen_batch(st, r, cfg, keys, n);
            items.sort_by(|a, b| a.k.cmp(&b.k));
            let mid = (0..r.usize(3))
                .map(|_| vec![gen_write_item(st, r, cfg, keys, &[], p)])
                .collect();
            Op::Ingest {
                items,
                mid,
                snap_mid: r.chance(1, 3),
            }
        }
        W_REOPEN => Op::Reopen,
        W_SNAP_OPEN => Op::SnapOpen,
        W_SNAP_CLOSE => Op::SnapClose { i: r.usize(4) },
        W_SCAN => {
            let overlay = if r.chance(1, 5) {
                let n = 1 + r.usize(3);
                gen_batch(st, r, cfg, keys, n)
            } else {
                vec![]
            };
            Op::Scan {
                lo: gen_bound(r, keys),
                hi: gen_bound(r, keys),
                word: gen_word(r),
                snap: gen_snap(r),
                overlay,
            }
        }
        W_PREFIX => {
            let k = r.pick(keys).0.clone();
            let p = match r.below(6) {
                0 => vec![],
                1 => vec![0xff],
                2 => {
                    let mut p = k[..r.usize(k.len() + 1)].to_vec();
                    p.push(0xff);
                    p
                }
                _ => k[..r.usize(k.len() + 1)].to_vec(),
            };
            Op::Prefix {
                p: Bytes(p),
                word: gen_word(r),
                snap: gen_snap(r),
            }
        }
        _ => Op::Clock {
            ns: match r.below(4) {
                0 => 0,
                1 => r.below(1_000_000),
                2 => r.below(5_000_000_000),
                _ => r.below(3_600_000_000_000),
            },
        },
    }
}

/// Generates a whole run for a sequential-history property.
pub fn gen_run(property: &str, seed: u64, p: &Profile) -> RunSpec {
    let mut r = Rng::new(seed);
    let mut cfg = gen_cfg(&mut r, p);
    let focus = p.leveled_focus && r.chance(1, 3);
    // shared-blob prelude (a quarter of the key-value-separated runs); half of those are
    // "shared-blob focus" runs: low staleness threshold, generous age cutoff and a history of
    // overwrites / flushes / leveled compactions with threshold 1, so that a blob file that
    // several last-level tables point into becomes stale while only some of those tables take
    // part in a compaction (the rule in pick_blob_files_to_rewrite)
    let shared_prelude = p.shared_blob_prelude && cfg.blob.is_some() && r.chance(1, 4);
    let shared_focus = shared_prelude && !focus && r.chance(1, 2);
    // the same shape for any tree ("last-level focus", a sixth of the runs of the profiles that
    // have leveled_focus): a multi-table last level built by the prelude, then short histories of
    // writes / deletes / flushes / leveled compactions that merge L0 straight into that level
    // while picking only the overlapping tables - where tombstones are evicted
    let llf = !focus && !shared_focus && p.leveled_focus && !p.fifo && r.chance(1, 6);
    if llf {
        cfg.block_size = *r.pick(&[64u32, 64, 128]);
    }
    if shared_focus {
        if let Some(b) = cfg.blob.as_mut() {
            b.staleness = *r.pick(&[0.01f32, 0.1, 0.25]);
            b.age_cutoff = *r.pick(&[0.5f32, 1.0, 1.0]);
        }
        // small blocks, so that the prelude's pointers fill several blocks and a table target
        // size of 1 really splits them into several tables
        cfg.block_size = *r.pick(&[64u32, 64, 128]);
    }
    let span = if r.chance(1, 4) { 36 } else { 10 };
    let nkeys = 4 + r.usize(span);
    let keys = if p.fifo {
        vec![Bytes(b"f000000".to_vec())]
    } else {
        gen_keys(&mut r, nkeys)
    };
    let keys = if (focus || shared_focus || llf) && !p.fifo && keys.len() < 24 {
        let mut ks: std::collections::BTreeSet<Bytes> = keys.into_iter().collect();
        for k in gen_keys(&mut r, 30) {
            ks.insert(k);
        }
        ks.into_iter().collect()
    } else {
        keys
    };
    let once = if p.weak_deletes || p.once_keys_write_once {
        let n_once = if p.weak_deletes { 1 + r.usize(3) } else { 2 + r.usize(5) };
        gen_once_keys(&mut r, n_once)
    } else {
        vec![]
    };
    // swarm: disable a random subset of optional operation kinds for this run
    let mut weights = p.w;
    let mut fixed_leveled: Option<(u8, u64, f32)> = None;
    let mut n_ops_override: Option<usize> = None;
    if focus {
        fixed_leveled = Some((
            1 + r.below(4) as u8,
            *r.pick(&[64u64, 128, 256, 512, 1024]),
            *r.pick(&[2.0f32, 2.0, 10.0]),
        ));
        weights = [0; 18];
        weights[W_WRITE] = 40;
        weights[W_BATCH] = 10;
        weights[W_FLUSH_ACTIVE] = 14;
        weights[W_LEVELED] = 20;
        weights[W_ROTATE] = 2;
        weights[W_REOPEN] = 1;
        weights[W_SNAP_OPEN] = p.w[W_SNAP_OPEN].min(2);
        weights[W_SNAP_CLOSE] = p.w[W_SNAP_CLOSE].min(2);
        weights[W_SCAN] = p.w[W_SCAN].min(3);
        n_ops_override = Some(60 + r.usize(80));
    }
    if shared_focus || llf {
        fixed_leveled = Some((
            if llf { *r.pick(&[1u8, 2, 2, 3]) } else { 1 },
            *r.pick(&[1u64, 1, 64, 1024]),
            *r.pick(&[2.0f32, 10.0]),
        ));
        weights = [0; 18];
        weights[W_WRITE] = 40;
        weights[W_BATCH] = if llf { 6 } else { 0 };
        weights[W_FLUSH_ACTIVE] = 16;
        weights[W_LEVELED] = 22;
        weights[W_ROTATE] = 2;
        weights[W_MAJOR] = 1;
        weights[W_REOPEN] = 1;
        weights[W_SNAP_OPEN] = p.w[W_SNAP_OPEN].min(2);
        weights[W_SNAP_CLOSE] = p.w[W_SNAP_CLOSE].min(2);
        weights[W_SCAN] = p.w[W_SCAN].min(3);
        n_ops_override = Some(30 + r.usize(50));
    }
    for (i, w) in weights.iter_mut().enumerate() {
        if shared_focus || llf {
            break;
        }
        if i != W_WRITE && i != W_FLUSH_ACTIVE && *w > 0 && r.chance(1, 5) {
            *w = 0;
        }
    }
    if cfg.blob.is_some() && !p.blob_ingest {
        // (profiles can keep bulk ingestion away from key-value-separated trees; this was used
        // while DESIGN 6 item 9 was an open finding)
        weights[W_INGEST] = 0;
    }
    let n_ops = match n_ops_override {
        Some(n) => n,
        None => p.min_ops + r.usize(p.max_ops - p.min_ops + 1),
    };
    let mut st = GenState {
        next_value_id: 0,
        disc: Discipline::default(),
        fifo_counter: 0,
        fifo_descending: p.fifo && r.chance(1, 2),
        huge_values: r.chance(1, 8) && !p.no_huge_values,
        // (not next to a compaction filter: the filter oracle attributes a shown version to its
        // write by the value, which must then be unique)
        empty_values: {
            let thr0 = cfg.blob.as_ref().is_some_and(|b| b.threshold == 0);
            r.below(6) < if thr0 { 4 } else { 1 } && cfg.filter_fn.is_none()
        },
    };
    let mut ops = Vec::with_capacity(n_ops);
    if shared_prelude || llf {
        let thr = cfg.blob.as_ref().map_or(8, |b| b.threshold as usize);
        let n = if shared_focus || llf {
            (10 + r.usize(14)).min(keys.len())
        } else {
            3 + r.usize(5).min(keys.len().saturating_sub(3))
        };
        // focus runs spread the prelude over the universe, so later overwrites hit single tables
        let stride = if shared_focus || llf { (keys.len() / n).max(1) } else { 1 };
        for k in keys.iter().step_by(stride).take(n) {
            st.next_value_id += 1;
            let mut v = format!("v{}:", st.next_value_id).into_bytes();
            while v.len() < thr + 4 {
                v.push(b'p');
            }
            ops.push(Op::Write {
                items: vec![WriteItem {
                    k: k.clone(),
                    kind: WKind::Put,
                    v: Bytes(v),
                }],
            });
        }
        ops.push(Op::FlushActive { wm: Wm::Zero });
        ops.push(Op::Major { target: 1, wm: Wm::Zero });
    }
    let mut bulk_keys: Vec<Bytes> = Vec::new();
    if p.bulk_prelude && r.chance(1, 4) {
        let n = 260 + r.usize(200);
        // half of the bulk runs use long keys: index entries of ~100 bytes fill the 4 KiB index
        // and filter partitions, so partitioned tables really get several partitions
        let pad = if r.chance(1, 2) { 40 + r.usize(60) } else { 0 };
        let mut items = Vec::with_capacity(n);
        for i in 0..n {
            let mut kb = format!("b{i:04}").into_bytes();
            kb.extend(std::iter::repeat(b'x').take(pad));
            let k = Bytes(kb);
            st.next_value_id += 1;
            items.push(WriteItem {
                k: k.clone(),
                kind: WKind::Put,
                v: Bytes(format!("v{}", st.next_value_id).into_bytes()),
            });
            bulk_keys.push(k);
        }
        ops.push(Op::Write { items });
        ops.push(Op::FlushActive { wm: Wm::Zero });
    }
    for _ in 0..n_ops {
        let mut op = gen_op(&mut st, &mut r, &cfg, &keys, &once, p, &weights);
        if let (Some((l0f, tf, rf)), Op::Leveled { l0, target, ratio, .. }) = (fixed_leveled, &mut op) {
            *l0 = l0f;
            *target = tf;
            *ratio = rf;
        }
        st.disc.on_op(&op);
        ops.push(op);
    }
    let mut all_keys = keys;
    all_keys.extend(once);
    all_keys.extend(bulk_keys);
    if p.wild_weak_deletes {
        all_keys.extend((0..4).map(|i| Bytes(format!("x~{i}").into_bytes())));
    }
    if p.fifo {
        all_keys = (1..=st.fifo_counter)
            .map(|i| Bytes(fifo_key(i, st.fifo_descending)))
            .collect();
        all_keys.sort();
    }
    RunSpec {
        property: property.to_string(),
        seed,
        cfg,
        keys: all_keys,
        ops,
        extra: serde_json::Value::Null,
    }
}
