//! Reference model: a versioned multi-map with event stamps.
//!
//! `view(S, at)` = for each key the newest version with `seqno < S` that was born at or before
//! event `at` and not removed at or before `at`; tombstones hide. A snapshot is `(S, opened_at)`;
//! the latest view is `(visible, now)`. MVCC garbage collection is deliberately *not* modelled:
//! inside the documented protocol (watermark strictly below every live snapshot) it must be
//! invisible, which is exactly what the checks decide.

use std::collections::{BTreeMap, BTreeSet};
use std::ops::Bound;

#[derive(Clone, Debug, PartialEq, Eq)]
pub enum MKind {
    Value(Vec<u8>),
    Tomb,
    WeakTomb,
}

impl MKind {
    pub fn is_tomb(&self) -> bool {
        !matches!(self, MKind::Value(_))
    }
}

#[derive(Clone, Copy, Debug, PartialEq, Eq)]
pub enum Loc {
    Active,
    Sealed,
    Disk,
}

#[derive(Clone, Debug)]
pub struct Ver {
    pub seqno: u64,
    pub kind: MKind,
    pub born: u64,
    pub removed: Option<u64>,
    pub loc: Loc,
}

impl Ver {
    fn alive_at(&self, at: u64) -> bool {
        self.born <= at && self.removed.map_or(true, |r| r > at)
    }
}

#[derive(Clone, Debug, Default)]
pub struct Model {
    pub keys: BTreeMap<Vec<u8>, Vec<Ver>>,
    pub ev: u64,
}

pub type View = BTreeMap<Vec<u8>, (Vec<u8>, u64)>;

impl Model {
    pub fn tick(&mut self) -> u64 {
        self.ev += 1;
        self.ev
    }

    pub fn write(&mut self, k: &[u8], seqno: u64, kind: MKind, loc: Loc) {
        let born = self.ev;
        self.keys.entry(k.to_vec()).or_default().push(Ver {
            seqno,
            kind,
            born,
            removed: None,
            loc,
        });
    }

    pub fn rotate(&mut self) {
        for vs in self.keys.values_mut() {
            for v in vs.iter_mut() {
                if v.loc == Loc::Active {
                    v.loc = Loc::Sealed;
                }
            }
        }
    }

    pub fn flush_sealed(&mut self) {
        for vs in self.keys.values_mut() {
            for v in vs.iter_mut() {
                if v.loc == Loc::Sealed {
                    v.loc = Loc::Disk;
                }
            }
        }
    }

    pub fn has_sealed(&self) -> bool {
        self.keys
            .values()
            .any(|vs| vs.iter().any(|v| v.loc == Loc::Sealed && v.removed.is_none()))
    }

    pub fn has_active(&self) -> bool {
        self.keys
            .values()
            .any(|vs| vs.iter().any(|v| v.loc == Loc::Active && v.removed.is_none()))
    }

    /// Reopen / crash: everything that only lived in memtables is gone, and so is history
    /// (no snapshot survives), so removed versions can be forgotten.
    pub fn lose_memtables(&mut self) {
        for vs in self.keys.values_mut() {
            vs.retain(|v| v.loc == Loc::Disk && v.removed.is_none());
        }
        self.keys.retain(|_, vs| !vs.is_empty());
    }

    pub fn clear_all(&mut self) {
        let ev = self.ev;
        for vs in self.keys.values_mut() {
            for v in vs.iter_mut() {
                if v.removed.is_none() {
                    v.removed = Some(ev);
                }
            }
        }
    }

    /// Marks one version removed (physical drop, `Destroy` verdict).
    pub fn remove_version(&mut self, k: &[u8], seqno: u64) -> bool {
        let ev = self.ev;
        if let Some(vs) = self.keys.get_mut(k) {
            for v in vs.iter_mut() {
                if v.seqno == seqno && v.removed.is_none() {
                    v.removed = Some(ev);
                    return true;
                }
            }
        }
        false
    }

    /// Replaces the payload of one version (compaction-filter verdicts), keeping its seqno.
    pub fn replace_version(&mut self, k: &[u8], seqno: u64, kind: MKind) -> bool {
        let ev = self.ev;
        if let Some(vs) = self.keys.get_mut(k) {
            if let Some(i) = vs
                .iter()
                .position(|v| v.seqno == seqno && v.removed.is_none())
            {
                vs[i].removed = Some(ev);
                let loc = vs[i].loc;
                vs.push(Ver {
                    seqno,
                    kind,
                    born: ev,
                    removed: None,
                    loc,
                });
                return true;
            }
        }
        false
    }

    /// Finds the live version of `k` that carries exactly this value (values are unique).
    pub fn find_by_value(&self, k: &[u8], value: &[u8]) -> Option<u64> {
        self.keys.get(k)?.iter().find_map(|v| match &v.kind {
            MKind::Value(x) if x == value && v.removed.is_none() => Some(v.seqno),
            _ => None,
        })
    }

    pub fn newest(&self, k: &[u8], s: u64, at: u64) -> Option<&Ver> {
        self.keys
            .get(k)?
            .iter()
            .filter(|v| v.seqno < s && v.alive_at(at))
            .max_by_key(|v| (v.seqno, v.born))
    }

    pub fn get(&self, k: &[u8], s: u64, at: u64) -> Option<(&[u8], u64)> {
        match self.newest(k, s, at) {
            Some(Ver {
                kind: MKind::Value(v),
                seqno,
                ..
            }) => Some((v.as_slice(), *seqno)),
            _ => None,
        }
    }

    pub fn view(&self, s: u64, at: u64) -> View {
        let mut out = View::new();
        for k in self.keys.keys() {
            if let Some((v, seqno)) = self.get(k, s, at) {
                out.insert(k.clone(), (v.to_vec(), seqno));
            }
        }
        out
    }

    /// Latest view restricted to what is on disk (what a reopen must restore).
    pub fn durable_view(&self) -> View {
        let mut out = View::new();
        for (k, vs) in &self.keys {
            let newest = vs
                .iter()
                .filter(|v| v.loc == Loc::Disk && v.removed.is_none())
                .max_by_key(|v| (v.seqno, v.born));
            if let Some(Ver {
                kind: MKind::Value(v),
                seqno,
                ..
            }) = newest
            {
                out.insert(k.clone(), (v.clone(), *seqno));
            }
        }
        out
    }

    pub fn max_seqno(&self, pred: impl Fn(&Ver) -> bool) -> Option<u64> {
        self.keys
            .values()
            .flat_map(|vs| vs.iter())
            .filter(|v| v.removed.is_none() && pred(v))
            .map(|v| v.seqno)
            .max()
    }

    /// All live (key, seqno) pairs (for physical re-synchronisation).
    pub fn live_pairs(&self) -> BTreeSet<(Vec<u8>, u64)> {
        self.keys
            .iter()
            .flat_map(|(k, vs)| {
                vs.iter()
                    .filter(|v| v.removed.is_none())
                    .map(move |v| (k.clone(), v.seqno))
            })
            .collect()
    }

    /// After a physical drop of whole tables: for the keys selected by `in_scope`, keep only
    /// the disk versions that are physically present (`present`); memtable versions stay.
    pub fn resync_physical(
        &mut self,
        in_scope: impl Fn(&[u8]) -> bool,
        present: &BTreeSet<(Vec<u8>, u64)>,
    ) -> usize {
        let ev = self.ev;
        let mut n = 0;
        for (k, vs) in self.keys.iter_mut() {
            if !in_scope(k) {
                continue;
            }
            for v in vs.iter_mut() {
                if v.removed.is_none()
                    && v.loc == Loc::Disk
                    && !present.contains(&(k.clone(), v.seqno))
                {
                    v.removed = Some(ev);
                    n += 1;
                }
            }
        }
        n
    }
}

pub fn in_bounds(k: &[u8], lo: &Bound<Vec<u8>>, hi: &Bound<Vec<u8>>) -> bool {
    let lo_ok = match lo {
        Bound::Unbounded => true,
        Bound::Included(b) => k >= b.as_slice(),
        Bound::Excluded(b) => k > b.as_slice(),
    };
    let hi_ok = match hi {
        Bound::Unbounded => true,
        Bound::Included(b) => k <= b.as_slice(),
        Bound::Excluded(b) => k < b.as_slice(),
    };
    lo_ok && hi_ok
}

pub fn restrict(view: &View, lo: &Bound<Vec<u8>>, hi: &Bound<Vec<u8>>) -> Vec<(Vec<u8>, Vec<u8>)> {
    view.iter()
        .filter(|(k, _)| in_bounds(k, lo, hi))
        .map(|(k, (v, _))| (k.clone(), v.clone()))
        .collect()
}
