//! Fork-per-run process pool. Every simulated execution runs in its own forked child of the
//! (single-threaded) check process: process-global state starts identical for every run, and
//! a panic, abort or runaway run kills only that child.

use crate::props::PropDef;
use crate::runner::{self, RunResult};
use crate::spec::RunSpec;
use std::collections::BTreeMap;
use std::path::PathBuf;
use std::time::Instant;

pub fn run_seed(base: u64, prop_id: &str, index: u64) -> u64 {
    crate::rng::mix(&[base, crate::rng::hash_bytes(prop_id.as_bytes()), index])
}

fn shm_root() -> PathBuf {
    let base = if std::path::Path::new("/dev/shm").is_dir() {
        "/dev/shm"
    } else {
        "/tmp"
    };
    PathBuf::from(format!("{base}/lsmsim-{}", std::process::id()))
}

struct Child {
    pid: i32,
    index: u64,
    seed: u64,
    started: Instant,
    dir: PathBuf,
    spec: Option<RunSpec>,
}

fn spawn_child(
    prop: &PropDef,
    tier: &str,
    index: u64,
    seed: u64,
    spec: Option<&RunSpec>,
    root: &PathBuf,
) -> Child {
    let dir = root.join(format!("r{index}"));
    let _ = std::fs::remove_dir_all(&dir);
    std::fs::create_dir_all(&dir).expect("create run dir");
    let pid = unsafe { libc::fork() };
    if pid < 0 {
        eprintln!("HARNESS-ERROR: fork failed");
        std::process::exit(2);
    }
    if pid == 0 {
        // child
        unsafe {
            // never outlive the check process
            libc::prctl(libc::PR_SET_PDEATHSIG, libc::SIGKILL);
            let lim = libc::rlimit {
                rlim_cur: 12 << 30,
                rlim_max: 12 << 30,
            };
            libc::setrlimit(libc::RLIMIT_AS, &lim);
            let core = libc::rlimit {
                rlim_cur: 0,
                rlim_max: 0,
            };
            libc::setrlimit(libc::RLIMIT_CORE, &core);
        }
        let res = match spec {
            Some(s) => runner::run_spec(prop, s, &dir, index),
            None => {
                let s = runner::generate(prop, tier, seed, index);
                runner::run_spec(prop, &s, &dir, index)
            }
        };
        let text = serde_json::to_string(&res).unwrap_or_else(|e| {
            format!("{{\"outcome\":\"harness_error\",\"msg\":\"serialise: {e}\"}}")
        });
        crate::simfs::clear_root();
        let _ = std::fs::write(dir.join("result.json"), text);
        unsafe { libc::_exit(0) };
    }
    Child {
        pid,
        index,
        seed,
        started: Instant::now(),
        dir,
        spec: spec.cloned(),
    }
}

fn collect(prop: &PropDef, tier: &str, c: &Child, status: i32, timed_out: bool) -> RunResult {
    let path = c.dir.join("result.json");
    let parsed = std::fs::read_to_string(&path)
        .ok()
        .and_then(|t| serde_json::from_str::<RunResult>(&t).ok());
    let exited_ok = libc::WIFEXITED(status) && libc::WEXITSTATUS(status) == 0;
    let res = match parsed {
        Some(r) if exited_ok => r,
        _ => {
            // the child died without reporting: abort, signal, harness error or timeout
            let spec = c
                .spec
                .clone()
                .unwrap_or_else(|| runner::generate(prop, tier, c.seed, c.index));
            let progress = std::fs::read_to_string(c.dir.join("progress")).unwrap_or_default();
            let mut r = RunResult::empty(c.index, c.seed);
            if libc::WIFEXITED(status) && libc::WEXITSTATUS(status) == 2 {
                r.outcome = "harness_error".into();
                r.msg = format!("child exited with harness error; progress: {progress}");
            } else if timed_out {
                r.outcome = "violation".into();
                r.tag = "hang".into();
                r.class = "hang/run-exceeded-time-limit".into();
                r.msg = format!("run did not finish within its time limit; progress: {progress}");
            } else {
                let sig = if libc::WIFSIGNALED(status) {
                    libc::WTERMSIG(status)
                } else {
                    -libc::WEXITSTATUS(status)
                };
                r.outcome = "violation".into();
                r.tag = "abort".into();
                r.class = format!("abort/signal-{sig}");
                r.msg = format!("process died (signal/exit {sig}) during the run; progress: {progress}");
            }
            let mut spec = spec;
            // crash engine: pin the crash point that was being examined when the process died
            let parts: Vec<&str> = progress.split_whitespace().collect();
            if parts.len() == 4 && parts[0] == "crashpoint" {
                if let (Ok(k), Ok(seed)) = (parts[1].parse::<usize>(), parts[3].parse::<u64>()) {
                    if let Some(obj) = spec.extra.as_object_mut() {
                        obj.insert(
                            "explicit".into(),
                            serde_json::json!([[k, parts[2], seed]]),
                        );
                        obj.insert("nested_percent".into(), serde_json::json!(0));
                    }
                    r.class = format!("{}/during-recovery-of-crash-image", r.class);
                }
            }
            r.spec = Some(spec);
            r
        }
    };
    let _ = std::fs::remove_dir_all(&c.dir);
    let mut res = res;
    res.wall_ms = c.started.elapsed().as_millis() as u64;
    res
}

/// CPU seconds (user + system, all threads) a process has consumed so far.
fn cpu_seconds(pid: i32) -> Option<f64> {
    let text = std::fs::read_to_string(format!("/proc/{pid}/stat")).ok()?;
    // fields after the parenthesised command name; utime and stime are fields 14 and 15
    let rest = &text[text.rfind(')')? + 2..];
    let f: Vec<&str> = rest.split_whitespace().collect();
    let ut: f64 = f.get(11)?.parse().ok()?;
    let st: f64 = f.get(12)?.parse().ok()?;
    let hz = unsafe { libc::sysconf(libc::_SC_CLK_TCK) } as f64;
    Some((ut + st) / hz.max(1.0))
}

/// A run is over its limit when it has *consumed* `cpu_limit` seconds of CPU (runaway loop) or
/// has been alive for `wall_limit` seconds (blocked forever). Wall-clock time alone is not a
/// reason: on a loaded machine a legitimate 20-CPU-second run can take minutes.
fn over_limit(pid: i32, started: Instant, cpu_limit: f64, wall_limit: f64) -> bool {
    let wall = started.elapsed().as_secs_f64();
    if wall > wall_limit {
        return true;
    }
    wall > cpu_limit && cpu_seconds(pid).map_or(true, |c| c > cpu_limit)
}

pub fn run_pool(
    prop: &PropDef,
    tier: &str,
    base: u64,
    runs: u64,
    jobs: usize,
    wall_cap: f64,
) -> Vec<RunResult> {
    let root = shm_root();
    let _ = std::fs::remove_dir_all(&root);
    std::fs::create_dir_all(&root).expect("create shm root");
    let start = Instant::now();
    // CPU seconds per run (see over_limit): thorough runs enumerate every byte / call / crash
    // point of a history and are legitimately long
    let per_run_limit = if tier == "thorough" { 1200.0 } else { 150.0 };
    let mut violations_seen = 0u32;
    let mut next = 0u64;
    let mut live: BTreeMap<i32, Child> = BTreeMap::new();
    let mut out: Vec<RunResult> = Vec::new();
    let mut capped = false;
    loop {
        if violations_seen >= 60 && (violations_seen as usize) * 10 > out.len() && !capped {
            capped = true;
            eprintln!("note: {violations_seen} runs violated the property; not starting further runs");
        }
        while live.len() < jobs && next < runs && !capped {
            if start.elapsed().as_secs_f64() > wall_cap {
                capped = true;
                eprintln!(
                    "note: wall-clock cap of {wall_cap}s reached after {next} of {runs} runs; stopping early"
                );
                break;
            }
            let seed = run_seed(base, prop.id, next);
            let c = spawn_child(prop, tier, next, seed, None, &root);
            live.insert(c.pid, c);
            next += 1;
        }
        if live.is_empty() {
            break;
        }
        let mut status: i32 = 0;
        let pid = unsafe { libc::waitpid(-1, &mut status, libc::WNOHANG) };
        if pid > 0 {
            if let Some(c) = live.remove(&pid) {
                let r = collect(prop, tier, &c, status, false);
                if r.outcome == "violation" {
                    violations_seen += 1;
                }
                out.push(r);
            }
        } else {
            // nobody finished: check time limits, then nap
            let over: Vec<i32> = live
                .iter()
                .filter(|(p, c)| over_limit(**p, c.started, per_run_limit, per_run_limit * 6.0))
                .map(|(p, _)| *p)
                .collect();
            for p in over {
                unsafe {
                    libc::kill(p, libc::SIGKILL);
                    let mut st = 0;
                    libc::waitpid(p, &mut st, 0);
                    if let Some(c) = live.remove(&p) {
                        violations_seen += 1;
                        out.push(collect(prop, tier, &c, st, true));
                    }
                }
            }
            std::thread::sleep(std::time::Duration::from_micros(300));
        }
    }
    let _ = std::fs::remove_dir_all(&root);
    out.sort_by_key(|r| r.index);
    out
}

/// Runs one explicit spec in a forked child and waits for it (replay, minimisation).
pub fn run_spec_in_child(prop: &PropDef, spec: &RunSpec, limit_s: f64) -> RunResult {
    static COUNTER: std::sync::atomic::AtomicU64 = std::sync::atomic::AtomicU64::new(0);
    let n = COUNTER.fetch_add(1, std::sync::atomic::Ordering::Relaxed);
    let root = shm_root().join("single");
    std::fs::create_dir_all(&root).expect("create shm root");
    let c = spawn_child(prop, "replay", 1_000_000 + n, spec.seed, Some(spec), &root);
    let start = Instant::now();
    loop {
        let mut status = 0;
        let pid = unsafe { libc::waitpid(c.pid, &mut status, libc::WNOHANG) };
        if pid == c.pid {
            let r = collect(prop, "replay", &c, status, false);
            let _ = std::fs::remove_dir_all(&root);
            return r;
        }
        if over_limit(c.pid, start, limit_s, limit_s * 4.0) {
            unsafe {
                libc::kill(c.pid, libc::SIGKILL);
                libc::waitpid(c.pid, &mut status, 0);
            }
            let r = collect(prop, "replay", &c, status, true);
            let _ = std::fs::remove_dir_all(&root);
            return r;
        }
        std::thread::sleep(std::time::Duration::from_micros(200));
    }
}
