//! Sequential history engine: executes a `RunSpec` against the real tree and the reference
//! model side by side, evaluating every oracle after every step. Which oracle is *decisive*
//! depends on the property being checked; the others only produce observations.

use crate::audit::{self, Audit};
use crate::model::{self, Loc, MKind, Model, View};
use crate::spec::*;
use lsm_tree::{
    AbstractTree, AnyTree, Cache, Config, DescriptorTable, Guard, KvSeparationOptions,
    SequenceNumberCounter,
};
use std::collections::{BTreeMap, BTreeSet};
use std::ops::Bound;
use std::path::{Path, PathBuf};
use std::sync::{Arc, Mutex};

#[derive(Clone, Debug)]
pub struct Violation {
    /// oracle tag: point | snapshot | scan | reopen | structure | gc_stats | seqno | files |
    /// fifo | error | panic | ...
    pub tag: String,
    /// finer class used as structural signature for known findings and minimisation
    pub class: String,
    pub msg: String,
    pub at_op: usize,
}

#[derive(Default, Clone, Debug)]
pub struct Stats {
    pub counters: BTreeMap<String, u64>,
    pub states: BTreeSet<u64>,
    pub log: Vec<String>,
    pub observations: Vec<String>,
    pub sim_ns: u64,
}

impl Stats {
    pub fn inc(&mut self, k: &str) {
        *self.counters.entry(k.to_string()).or_insert(0) += 1;
    }
    pub fn add(&mut self, k: &str, n: u64) {
        *self.counters.entry(k.to_string()).or_insert(0) += n;
    }
    pub fn get(&self, k: &str) -> u64 {
        self.counters.get(k).copied().unwrap_or(0)
    }
}

#[derive(Clone, Debug)]
pub struct Snap {
    pub s: u64,
    pub opened_at: u64,
    pub frozen: View,
}

pub type FilterLog = Arc<Mutex<Vec<(Vec<u8>, Vec<u8>, u8, Vec<u8>)>>>;

/// Keys of the "wild" class (`x~…`) receive undisciplined weak deletes (a weak delete on a key
/// that was overwritten may legitimately resurrect older versions), so the model says nothing
/// about them: they are excluded from every model comparison but take part in everything else
/// (flushes, compactions, blob GC statistics).
pub fn is_wild(k: &[u8]) -> bool {
    k.starts_with(b"x~")
}

/// Key class by first byte: keys starting with `w` are write-once / single-delete class.
pub fn is_once_class(k: &[u8]) -> bool {
    k.first() == Some(&b'w')
}

pub const VERDICT_NAMES: [&str; 6] = [
    "keep",
    "remove",
    "replace_small",
    "replace_large",
    "remove_weak",
    "destroy",
];

/// The deterministic verdict function shared by the installed filter and the model.
pub fn verdict_for(f: &FilterFnSpec, key: &[u8], value: &[u8]) -> (u8, Vec<u8>) {
    let h = crate::rng::mix(&[
        f.salt,
        crate::rng::hash_bytes(key),
        crate::rng::hash_bytes(value),
    ]);
    let mut r = crate::rng::Rng::new(h);
    let mut v = r.weighted(&f.weights) as u8;
    if (v == 4 || v == 5) && !is_once_class(key) {
        v = 1;
    }
    let repl = match v {
        2 => format!("R{:012x}", h & 0xffff_ffff_ffff).into_bytes(),
        3 => {
            let mut b = format!("R{:012x}:", h & 0xffff_ffff_ffff).into_bytes();
            b.resize(90, b'r');
            b
        }
        _ => vec![],
    };
    (v, repl)
}

struct SimFilter {
    f: FilterFnSpec,
    log: FilterLog,
}

impl lsm_tree::compaction::CompactionFilter for SimFilter {
    fn filter_item(
        &mut self,
        item: lsm_tree::compaction::ItemAccessor<'_>,
        _ctx: &lsm_tree::compaction::filter::Context,
    ) -> lsm_tree::Result<lsm_tree::compaction::Verdict> {
        use lsm_tree::compaction::Verdict;
        let key = item.key().to_vec();
        // `value()` is unreachable!() for tombstones: calling it asserts "never shown a tombstone"
        let value = item.value()?.to_vec();
        let (v, repl) = verdict_for(&self.f, &key, &value);
        self.log.lock().unwrap().push((key, value, v, repl.clone()));
        Ok(match v {
            0 => Verdict::Keep,
            1 => Verdict::Remove,
            2 | 3 => Verdict::ReplaceValue(repl.into()),
            4 => Verdict::RemoveWeak,
            _ => Verdict::Destroy,
        })
    }
}

struct SimFilterFactory {
    f: FilterFnSpec,
    log: FilterLog,
}

impl lsm_tree::compaction::Factory for SimFilterFactory {
    fn name(&self) -> &str {
        "lsmsim-filter"
    }

    fn make_filter(
        &self,
        _ctx: &lsm_tree::compaction::filter::Context,
    ) -> Box<dyn lsm_tree::compaction::CompactionFilter> {
        Box::new(SimFilter {
            f: self.f.clone(),
            log: self.log.clone(),
        })
    }
}

pub struct Shared {
    pub cache: Arc<Cache>,
    pub fd_table: Option<Arc<DescriptorTable>>,
}

pub fn build_config(
    path: &Path,
    cfg: &CfgSpec,
    seqno: SequenceNumberCounter,
    visible: SequenceNumberCounter,
    shared: Option<&Shared>,
    filter_log: &FilterLog,
) -> Config {
    use lsm_tree::config::*;
    let mut c = Config::new(path, seqno, visible)
        .data_block_size_policy(BlockSizePolicy::all(cfg.block_size))
        .data_block_restart_interval_policy(RestartIntervalPolicy::all(cfg.restart_interval))
        .data_block_hash_ratio_policy(HashRatioPolicy::all(cfg.hash_ratio))
        .index_block_partitioning_policy(PinningPolicy::new(cfg.index_part.clone()))
        .filter_block_partitioning_policy(PinningPolicy::new(cfg.filter_part.clone()))
        .index_block_pinning_policy(PinningPolicy::new(cfg.pin_index.clone()))
        .filter_block_pinning_policy(PinningPolicy::new(cfg.pin_filter.clone()))
        .filter_policy(FilterPolicy::all(match cfg.filter {
            FilterSpec::None => FilterPolicyEntry::None,
            FilterSpec::Bits(b) => FilterPolicyEntry::Bloom(BloomConstructionPolicy::BitsPerKey(b)),
            FilterSpec::Fpr(f) => {
                FilterPolicyEntry::Bloom(BloomConstructionPolicy::FalsePositiveRate(f))
            }
        }))
        .expect_point_read_hits(cfg.expect_hits)
        .data_block_compression_policy(CompressionPolicy::all(if cfg.lz4 {
            lsm_tree::CompressionType::Lz4
        } else {
            lsm_tree::CompressionType::None
        }));
    match shared {
        Some(s) => {
            c = c
                .use_cache(s.cache.clone())
                .use_descriptor_table(s.fd_table.clone());
        }
        None => {
            c = c
                .use_cache(Arc::new(Cache::with_capacity_bytes(cfg.cache_bytes)))
                .use_descriptor_table(cfg.fd_table.map(|n| Arc::new(DescriptorTable::new(n))));
        }
    }
    if let Some(b) = &cfg.blob {
        c = c.with_kv_separation(Some(
            KvSeparationOptions::default()
                .separation_threshold(b.threshold)
                .file_target_size(b.file_target)
                .staleness_threshold(b.staleness)
                .age_cutoff(b.age_cutoff)
                .compression(if b.lz4 {
                    lsm_tree::CompressionType::Lz4
                } else {
                    lsm_tree::CompressionType::None
                }),
        ));
    }
    if let Some(f) = &cfg.filter_fn {
        c = c.with_compaction_filter_factory(Some(Arc::new(SimFilterFactory {
            f: f.clone(),
            log: filter_log.clone(),
        })));
    }
    c
}

#[derive(Clone, Debug, Default)]
pub struct EngineOpts {
    /// oracle tags whose failure is a violation of the property under check
    pub decisive: BTreeSet<String>,
    /// evaluate the expensive per-step oracles (all keys, all snapshots, audit)
    pub full_checks: bool,
    /// final reclamation phase for C20
    pub final_reclaim_phase: bool,
}

pub struct Engine {
    pub spec: RunSpec,
    pub root: PathBuf,
    pub tree: Option<AnyTree>,
    pub seqno: SequenceNumberCounter,
    pub visible: SequenceNumberCounter,
    pub model: Model,
    pub snaps: Vec<Snap>,
    pub opts: EngineOpts,
    pub stats: Stats,
    pub filter_log: FilterLog,
    pub shared: Option<Shared>,
    pub probe_keys: Vec<Vec<u8>>,
    /// cost control for big key universes (bulk prelude): after a step that changed no version
    /// only the keys the step wrote plus a rotating 1/stride slice of the universe are probed
    pub probe_window: bool,
    pub probe_round: usize,
    pub touched: BTreeSet<Vec<u8>>,
    pub op_idx: usize,
    /// all blob pointers ever observed per blob file: id -> (offset -> (on_disk, size))
    pub blob_seen: BTreeMap<u64, BTreeMap<u64, (u32, u32)>>,
    /// zero-reference blob files seen in the previous version change (liveness lag tracking)
    pub dead_blob_lag: BTreeMap<u64, u32>,
    pub last_audit: Option<Audit>,
    pub sessions: u64,
    pub cur_merge: bool,
    pub has_wild: bool,
    /// model-independent oracles that failed without being decisive: switched off for the
    /// rest of the run (recorded as an observation)
    pub disabled: BTreeSet<String>,
}

type R<T> = Result<T, Violation>;

fn bound_ref(b: &Bound<Vec<u8>>) -> Bound<&[u8]> {
    match b {
        Bound::Unbounded => Bound::Unbounded,
        Bound::Included(x) => Bound::Included(x.as_slice()),
        Bound::Excluded(x) => Bound::Excluded(x.as_slice()),
    }
}

impl Engine {
    pub fn new(spec: RunSpec, root: PathBuf, opts: EngineOpts, shared: Option<Shared>) -> Self {
        let mut probe: BTreeSet<Vec<u8>> = BTreeSet::new();
        for k in spec.keys.iter().filter(|k| !is_wild(&k.0)) {
            probe.insert(k.0.clone());
            let mut a = k.0.clone();
            a.push(0);
            probe.insert(a);
            if k.0.len() > 1 {
                probe.insert(k.0[..k.0.len() - 1].to_vec());
            }
        }
        let has_wild = spec.keys.iter().any(|k| is_wild(&k.0));
        let mut me = Self {
            spec,
            root,
            tree: None,
            seqno: SequenceNumberCounter::default(),
            visible: SequenceNumberCounter::default(),
            model: Model::default(),
            snaps: Vec::new(),
            opts,
            stats: Stats::default(),
            filter_log: Arc::new(Mutex::new(Vec::new())),
            shared,
            probe_keys: probe.into_iter().collect(),
            probe_window: false,
            probe_round: 0,
            touched: BTreeSet::new(),
            op_idx: 0,
            blob_seen: BTreeMap::new(),
            dead_blob_lag: BTreeMap::new(),
            last_audit: None,
            sessions: 0,
            cur_merge: false,
            has_wild: false,
            disabled: BTreeSet::new(),
        };
        me.has_wild = has_wild;
        me
    }

    pub fn tree(&self) -> &AnyTree {
        self.tree.as_ref().expect("tree is open")
    }

    fn viol(&self, tag: &str, class: &str, msg: String) -> Violation {
        Violation {
            tag: tag.to_string(),
            class: class.to_string(),
            msg,
            at_op: self.op_idx,
        }
    }

    fn err<T>(&self, what: &str, r: lsm_tree::Result<T>) -> R<T> {
        r.map_err(|e| {
            self.viol(
                "error",
                &format!("error/{what}"),
                format!("{what} returned Err({e:?}) in a fault-free run"),
            )
        })
    }

    pub fn open(&mut self) -> R<()> {
        let cfg = build_config(
            &self.root,
            &self.spec.cfg,
            self.seqno.clone(),
            self.visible.clone(),
            self.shared.as_ref(),
            &self.filter_log,
        );
        let t = self.err("open", cfg.open())?;
        self.tree = Some(t);
        self.sessions += 1;
        Ok(())
    }

    /// Resolves a watermark choice against the oldest live snapshot.
    pub fn resolve_wm(&self, wm: Wm) -> u64 {
        let s_min = self
            .snaps
            .iter()
            .map(|s| s.s)
            .min()
            .unwrap_or(u64::MAX)
            .min(self.visible.get());
        let limit = s_min.saturating_sub(1);
        match wm {
            Wm::Zero => 0,
            Wm::One => 1.min(limit),
            Wm::Max => limit,
            Wm::Frac(f) => ((u128::from(limit) * u128::from(f)) / 256) as u64,
        }
    }

    fn do_write(&mut self, items: &[WriteItem]) {
        let s = self.seqno.next();
        self.model.tick();
        for w in items {
            let t = self.tree.as_ref().unwrap();
            match w.kind {
                WKind::Put => {
                    self.touched.insert(w.k.0.clone());
                    if w.v.0.len() >= 65_536 {
                        self.stats.inc("probe_value_of_64k_or_more");
                    }
                    let _ = t.insert(w.k.0.as_slice(), w.v.0.as_slice(), s);
                    self.model
                        .write(&w.k.0, s, MKind::Value(w.v.0.clone()), Loc::Active);
                }
                WKind::Del => {
                    self.touched.insert(w.k.0.clone());
                    let _ = t.remove(w.k.0.as_slice(), s);
                    self.model.write(&w.k.0, s, MKind::Tomb, Loc::Active);
                }
                WKind::WeakDel => {
                    self.touched.insert(w.k.0.clone());
                    let _ = t.remove_weak(w.k.0.as_slice(), s);
                    self.model.write(&w.k.0, s, MKind::WeakTomb, Loc::Active);
                }
            }
        }
        self.visible.fetch_max(s + 1);
    }

    fn level_counts(&self) -> Vec<(usize, usize)> {
        // (runs, tables) per level from the last audit or a fresh dump
        let d = lsm_tree::verif::dump_current(self.tree());
        d.levels
            .iter()
            .map(|l| (l.len(), l.iter().map(Vec::len).sum()))
            .collect()
    }

    /// Applies the compaction-filter log to the model.
    fn drain_filter_log(&mut self) -> R<()> {
        let log: Vec<_> = std::mem::take(&mut *self.filter_log.lock().unwrap());
        if log.is_empty() {
            return Ok(());
        }
        self.model.tick();
        for (key, value, v, repl) in log {
            self.stats.inc(&format!("filter_verdict_{}", VERDICT_NAMES[v as usize]));
            let Some(seqno) = self.model.find_by_value(&key, &value) else {
                return Err(self.viol(
                    "filter",
                    "filter/shown-unknown-item",
                    format!(
                        "compaction filter was shown ({}, {}) which no write or replacement ever produced",
                        Bytes(key).short(),
                        Bytes(value).short()
                    ),
                ));
            };
            match v {
                0 => {}
                1 => {
                    self.model.replace_version(&key, seqno, MKind::Tomb);
                }
                2 | 3 => {
                    self.model.replace_version(&key, seqno, MKind::Value(repl));
                    if v == 3 {
                        self.stats.inc("filter_replace_crossed_threshold");
                    }
                }
                4 => {
                    self.model.replace_version(&key, seqno, MKind::WeakTomb);
                }
                _ => {
                    self.model.remove_version(&key, seqno);
                }
            }
        }
        Ok(())
    }

    pub fn step(&mut self, op: &Op) -> R<()> {
        self.stats.inc(&format!("op_{}", op.name()));
        let before_dump = lsm_tree::verif::dump_current(self.tree());
        let before_vid = before_dump.id;
        let ids_of = |d: &lsm_tree::verif::VersionDump| -> (BTreeSet<u64>, BTreeSet<u64>) {
            (
                d.levels.iter().flatten().flatten().map(lsm_tree::Table::id).collect(),
                d.blob_files.iter().map(|b| b.id).collect(),
            )
        };
        let (tables_before, blobs_before) = ids_of(&before_dump);
        drop(before_dump);
        let mut version_changed_hint = false;
        let mut maintenance_t: Option<u64> = None;
        match op {
            Op::Write { items } => self.do_write(items),
            Op::Rotate => {
                let r = self.tree().rotate_memtable();
                if r.is_some() {
                    self.model.rotate();
                }
            }
            Op::Flush { wm } => {
                let t = self.resolve_wm(*wm);
                let tree = self.tree.as_ref().unwrap();
                let lock = tree.get_flush_lock();
                let r = tree.flush(&lock, t);
                drop(lock);
                let r = self.err("flush", r)?;
                if r.is_some() {
                    self.model.tick();
                    self.model.flush_sealed();
                    version_changed_hint = true;
                    maintenance_t = Some(t);
                }
            }
            Op::FlushActive { wm } => {
                let t = self.resolve_wm(*wm);
                let r = self.tree().flush_active_memtable(t);
                self.err("flush_active_memtable", r)?;
                self.model.tick();
                self.model.rotate();
                self.model.flush_sealed();
                version_changed_hint = true;
                maintenance_t = Some(t);
            }
            Op::Leveled {
                l0,
                target,
                ratio,
                wm,
            } => {
                let lc = self.level_counts();
                if lc.iter().skip(1).any(|(runs, _)| *runs > 1) {
                    self.stats.inc("skipped_precondition");
                } else {
                    let t = self.resolve_wm(*wm);
                    let strat = lsm_tree::compaction::Leveled::default()
                        .with_l0_threshold(*l0)
                        .with_table_target_size(*target)
                        .with_level_ratio_policy(vec![*ratio]);
                    let r = self.tree().compact(Arc::new(strat), t);
                    self.err("compact(Leveled)", r)?;
                    version_changed_hint = true;
                    maintenance_t = Some(t);
                }
            }
            Op::Major { target, wm } => {
                let t = self.resolve_wm(*wm);
                let r = self.tree().major_compact(*target, t);
                self.err("major_compact", r)?;
                version_changed_hint = true;
                maintenance_t = Some(t);
            }
            Op::MoveDown { from, to, wm } => {
                let lc = self.level_counts();
                let (f, d) = (*from as usize, *to as usize);
                let ok = f < d
                    && d < lc.len()
                    && lc[f].0 == 1
                    && lc[f + 1..=d].iter().all(|(r, _)| *r == 0);
                if ok {
                    let t = self.resolve_wm(*wm);
                    let r = self
                        .tree()
                        .compact(Arc::new(lsm_tree::compaction::MoveDown(*from, *to)), t);
                    self.err("compact(MoveDown)", r)?;
                    version_changed_hint = true;
                    maintenance_t = Some(t);
                } else {
                    self.stats.inc("skipped_precondition");
                }
            }
            Op::PullDown { from, to, wm } => {
                let lc = self.level_counts();
                let (f, d) = (*from as usize, *to as usize);
                let ok = f < d
                    && d < lc.len()
                    && lc[f].1 + lc[d].1 > 0
                    && lc[f + 1..d].iter().all(|(r, _)| *r == 0);
                if ok {
                    let t = self.resolve_wm(*wm);
                    let r = self
                        .tree()
                        .compact(Arc::new(lsm_tree::compaction::PullDown(*from, *to)), t);
                    self.err("compact(PullDown)", r)?;
                    version_changed_hint = true;
                    maintenance_t = Some(t);
                } else {
                    self.stats.inc("skipped_precondition");
                }
            }
            Op::Fifo { limit, ttl, wm } => {
                self.step_fifo(*limit, *ttl, *wm)?;
                version_changed_hint = true;
            }
            Op::DropRange { lo, hi } => {
                self.step_drop_range(lo, hi)?;
                version_changed_hint = true;
            }
            Op::Clear => {
                let r = self.tree().clear();
                self.err("clear", r)?;
                self.model.tick();
                self.model.clear_all();
                version_changed_hint = true;
            }
            Op::Ingest {
                items,
                mid,
                snap_mid,
            } => {
                self.step_ingest(items, mid, *snap_mid)?;
                version_changed_hint = true;
            }
            Op::Reopen => {
                self.step_reopen()?;
                version_changed_hint = true;
            }
            Op::SnapOpen => {
                if self.snaps.len() < 4 {
                    let s = self.visible.get();
                    let at = self.model.ev;
                    let frozen = self.model.view(s, at);
                    self.snaps.push(Snap {
                        s,
                        opened_at: at,
                        frozen,
                    });
                }
            }
            Op::SnapClose { i } => {
                if !self.snaps.is_empty() {
                    let i = *i % self.snaps.len();
                    self.snaps.remove(i);
                }
            }
            Op::Scan {
                lo,
                hi,
                word,
                snap,
                overlay,
            } => {
                self.step_scan(&lo.as_bound(), &hi.as_bound(), word, *snap, overlay, None)?;
            }
            Op::Prefix { p, word, snap } => {
                self.step_scan(
                    &Bound::Unbounded,
                    &Bound::Unbounded,
                    word,
                    *snap,
                    &[],
                    Some(&p.0),
                )?;
            }
            Op::Clock { ns } => {
                crate::sched::clock_advance(*ns);
                self.stats.sim_ns += *ns;
            }
        }
        self.drain_filter_log()?;

        let after = lsm_tree::verif::dump_current(self.tree());
        let version_changed = after.id != before_vid || version_changed_hint;
        let (tables_after, blobs_after) = ids_of(&after);
        let is_compaction = matches!(
            op,
            Op::Leveled { .. } | Op::Major { .. } | Op::PullDown { .. } | Op::MoveDown { .. }
        );
        self.cur_merge = false;
        if is_compaction && after.id != before_vid {
            if tables_after != tables_before {
                self.stats.inc("merges_done");
                self.cur_merge = true;
                if blobs_after.difference(&blobs_before).next().is_some() {
                    self.stats.inc("probe_blob_relocation");
                }
            } else {
                self.stats.inc("probe_trivial_move");
            }
        }
        if blobs_before.difference(&blobs_after).next().is_some() && !matches!(op, Op::Clear) {
            self.stats.inc("probe_blob_file_dropped");
        }
        self.stats.log.push(format!(
            "#{} {} -> vid={} visible={} shape={}",
            self.op_idx,
            op.name(),
            after.id,
            self.visible.get(),
            after
                .levels
                .iter()
                .map(|l| l.iter().map(|r| r.len().to_string()).collect::<Vec<_>>().join("+"))
                .collect::<Vec<_>>()
                .join("/"),
        ));
        let maintenance_t = if after.id != before_vid { maintenance_t } else { None };
        self.post_step(op, version_changed, maintenance_t)?;
        self.op_idx += 1;
        Ok(())
    }

    fn step_ingest(&mut self, items: &[WriteItem], mid: &[Vec<WriteItem>], snap_mid: bool) -> R<()> {
        // items must be strictly ascending by key (generator guarantees; re-check for sub-histories)
        let mut sorted: Vec<WriteItem> = items.to_vec();
        sorted.sort_by(|a, b| a.k.cmp(&b.k));
        sorted.dedup_by(|a, b| a.k == b.k);
        let tree = self.tree.clone().unwrap();
        let ing = tree.ingestion();
        let mut ing = self.err("ingestion", ing)?;
        for batch in mid {
            self.do_write(batch);
        }
        if snap_mid && self.snaps.len() < 4 {
            let s = self.visible.get();
            let at = self.model.ev;
            let frozen = self.model.view(s, at);
            self.snaps.push(Snap {
                s,
                opened_at: at,
                frozen,
            });
        }
        for w in &sorted {
            let r = match w.kind {
                WKind::Put => ing.write(w.k.0.as_slice(), w.v.0.as_slice()),
                WKind::Del => ing.write_tombstone(w.k.0.as_slice()),
                WKind::WeakDel => ing.write_weak_tombstone(w.k.0.as_slice()),
            };
            self.err("ingestion.write", r)?;
        }
        let had_mem = self.model.has_active() || self.model.has_sealed();
        let r = ing.finish();
        self.err("ingestion.finish", r)?;
        if sorted.is_empty() {
            return Ok(());
        }
        // finish() flushed the memtables, then registered the ingested tables with seqno g
        self.model.tick();
        self.model.rotate();
        self.model.flush_sealed();
        let g = self.seqno.get() - 1;
        self.model.tick();
        for w in &sorted {
            let kind = match w.kind {
                WKind::Put => MKind::Value(w.v.0.clone()),
                WKind::Del => MKind::Tomb,
                WKind::WeakDel => MKind::WeakTomb,
            };
            self.model.write(&w.k.0, g, kind, Loc::Disk);
        }
        if had_mem {
            self.stats.inc("ingest_with_memtable_data");
        }
        if self.visible.get() != g + 1 {
            return Err(self.viol(
                "ingest",
                "ingest/visible-seqno",
                format!(
                    "after ingestion visible_seqno={} but the ingested batch carries seqno {g}",
                    self.visible.get()
                ),
            ));
        }
        Ok(())
    }

    fn step_drop_range(&mut self, lo: &BoundSpec, hi: &BoundSpec) -> R<()> {
        let lo_b = lo.as_bound();
        let hi_b = hi.as_bound();
        let before = audit::audit_tree(self.tree());
        let r = self
            .tree()
            .drop_range::<Vec<u8>, _>((lo_b.clone(), hi_b.clone()));
        self.err("drop_range", r)?;
        let after = audit::audit_tree(self.tree());
        let before_ids: BTreeSet<u64> = before.tables.iter().map(|t| t.id).collect();
        let after_ids: BTreeSet<u64> = after.tables.iter().map(|t| t.id).collect();
        let dropped: Vec<u64> = before_ids.difference(&after_ids).copied().collect();
        let created: Vec<u64> = after_ids.difference(&before_ids).copied().collect();
        if !created.is_empty() {
            return Err(self.viol(
                "drop_range",
                "drop_range/created-tables",
                format!("drop_range created tables {created:?}"),
            ));
        }
        // the statement: nothing outside R changes. A dropped table must lie wholly inside R,
        // judged from the property's wording against the table's actual first/last key.
        for t in before.tables.iter().filter(|t| dropped.contains(&t.id)) {
            let first = t.entries.first().map(|e| e.key.clone()).unwrap_or_default();
            let last = t.entries.last().map(|e| e.key.clone()).unwrap_or_default();
            if !(model::in_bounds(&first, &lo_b, &hi_b) && model::in_bounds(&last, &lo_b, &hi_b)) {
                return Err(self.viol(
                    "drop_range",
                    "drop_range/dropped-table-outside-range",
                    format!(
                        "drop_range({lo:?}, {hi:?}) dropped table {} holding keys [{} .. {}] not wholly inside the range",
                        t.id,
                        Bytes(first).short(),
                        Bytes(last).short()
                    ),
                ));
            }
        }
        let empty_or_inverted = match (&lo_b, &hi_b) {
            (Bound::Included(a) | Bound::Excluded(a), Bound::Included(b) | Bound::Excluded(b)) => {
                a > b
                    || (a == b
                        && !(matches!(lo_b, Bound::Included(_))
                            && matches!(hi_b, Bound::Included(_))))
            }
            _ => false,
        };
        if empty_or_inverted {
            self.stats.inc("drop_range_empty_or_inverted");
            if !dropped.is_empty() {
                return Err(self.viol(
                    "drop_range",
                    "drop_range/empty-range-dropped",
                    format!("empty or inverted range ({lo:?}, {hi:?}) dropped tables {dropped:?}"),
                ));
            }
        }
        if !dropped.is_empty() {
            self.stats.inc("drop_range_dropped_tables");
            self.model.tick();
            let present = after.present_pairs();
            let n = self
                .model
                .resync_physical(|k| model::in_bounds(k, &lo_b, &hi_b), &present);
            self.stats.add("drop_range_versions_removed", n as u64);
        }
        Ok(())
    }

    fn step_fifo(&mut self, limit: u64, ttl: Option<u64>, wm: Wm) -> R<()> {
        let before = audit::audit_tree(self.tree());
        let l0_disjoint = {
            let mut ts: Vec<_> = before.tables.iter().filter(|t| t.level == 0).collect();
            ts.sort_by(|a, b| a.meta_min_key.cmp(&b.meta_min_key));
            ts.windows(2).all(|w| w[0].meta_max_key < w[1].meta_min_key)
        };
        if !l0_disjoint || before.tables.iter().any(|t| t.level != 0) {
            self.stats.inc("skipped_precondition");
            return Ok(());
        }
        let t = self.resolve_wm(wm);
        let now_ns = u128::from(crate::sched::EPOCH_S) * 1_000_000_000
            + u128::from(crate::sched::clock_now_ns());
        let r = self
            .tree()
            .compact(Arc::new(lsm_tree::compaction::Fifo::new(limit, ttl)), t);
        self.err("compact(Fifo)", r)?;
        let after = audit::audit_tree(self.tree());
        let after_ids: BTreeSet<u64> = after.tables.iter().map(|t| t.id).collect();
        let removed: Vec<&audit::TableAudit> = before
            .tables
            .iter()
            .filter(|t| !after_ids.contains(&t.id))
            .collect();
        let retained: Vec<&audit::TableAudit> = before
            .tables
            .iter()
            .filter(|t| after_ids.contains(&t.id))
            .collect();
        if after.tables.iter().any(|t| !before.tables.iter().any(|b| b.id == t.id)) {
            self.stats.inc("fifo_created_tables");
        }
        let expired = |t: &audit::TableAudit| match ttl {
            Some(s) if s > 0 => {
                t.created_at <= now_ns.saturating_sub(u128::from(s) * 1_000_000_000)
            }
            _ => false,
        };
        let size_before: u64 = before.tables.iter().map(|t| t.file_size).sum::<u64>()
            + before
                .blobs
                .iter()
                .map(|b| {
                    crate::simfs::bypass(|| std::fs::metadata(&b.path).map(|m| m.len()).unwrap_or(0))
                })
                .sum::<u64>();
        let any_expired = before.tables.iter().any(|t| expired(t));
        if size_before <= limit && !any_expired && !removed.is_empty() {
            return Err(self.viol(
                "fifo",
                "fifo/dropped-within-limits",
                format!(
                    "FIFO(limit={limit}, ttl={ttl:?}) removed tables {:?} although size {size_before} <= limit and nothing expired",
                    removed.iter().map(|t| t.id).collect::<Vec<_>>()
                ),
            ));
        }
        for r in &removed {
            if expired(r) {
                self.stats.inc("fifo_removed_expired");
                continue;
            }
            self.stats.inc("fifo_removed_by_size");
            for k in &retained {
                if r.created_at > k.created_at {
                    return Err(self.viol(
                        "fifo",
                        "fifo/removed-newer-than-retained",
                        format!(
                            "FIFO removed table {} (created_at {}) although older table {} (created_at {}) was retained",
                            r.id, r.created_at, k.id, k.created_at
                        ),
                    ));
                }
            }
        }
        if removed.is_empty() {
            self.stats.inc("fifo_noop");
        } else {
            self.model.tick();
            let present = after.present_pairs();
            self.model.resync_physical(|_| true, &present);
        }
        Ok(())
    }

    fn step_reopen(&mut self) -> R<()> {
        let before = audit::audit_tree(self.tree());
        let persisted_before = self.tree().get_highest_persisted_seqno();
        let stale_before = self.tree().stale_blob_bytes();
        // drop the tree and everything derived from it
        self.tree = None;
        self.last_audit = None;
        self.snaps.clear();
        self.model.tick();
        self.model.lose_memtables();
        self.seqno = SequenceNumberCounter::default();
        self.visible = SequenceNumberCounter::default();
        if let Some(s) = &self.shared {
            // caches may be shared with other trees: keep them
            let _ = s;
        }
        self.open()?;
        let highest = self.tree().get_highest_seqno();
        let next = highest.map_or(0, |h| h + 1);
        self.seqno.set(next);
        self.visible.set(next);
        self.stats.inc("reopen");

        let after = audit::audit_tree(self.tree());
        let ids = |a: &Audit| -> Vec<(usize, u64)> {
            let mut v: Vec<_> = a.tables.iter().map(|t| (t.level, t.id)).collect();
            v.sort_unstable();
            v
        };
        if ids(&before) != ids(&after) {
            return Err(self.viol(
                "reopen",
                "reopen/table-set",
                format!(
                    "tables per level before close {:?} != after reopen {:?}",
                    ids(&before),
                    ids(&after)
                ),
            ));
        }
        let bids = |a: &Audit| -> Vec<u64> { a.blobs.iter().map(|b| b.id).collect() };
        if bids(&before) != bids(&after) {
            return Err(self.viol(
                "reopen",
                "reopen/blob-set",
                format!(
                    "blob files before close {:?} != after reopen {:?}",
                    bids(&before),
                    bids(&after)
                ),
            ));
        }
        if persisted_before != self.tree().get_highest_persisted_seqno() {
            return Err(self.viol(
                "seqno",
                "seqno/persisted-across-reopen",
                format!(
                    "get_highest_persisted_seqno {:?} before close != {:?} after reopen",
                    persisted_before,
                    self.tree().get_highest_persisted_seqno()
                ),
            ));
        }
        let live_stats = |a: &Audit| -> Vec<(u64, usize, u64, u64)> {
            a.gc_stats
                .iter()
                .filter(|e| a.blobs.iter().any(|b| b.id == e.0))
                .copied()
                .collect()
        };
        if live_stats(&before) != live_stats(&after)
            || stale_before != self.tree().stale_blob_bytes()
        {
            return Err(self.viol(
                "gc_stats",
                "gc_stats/across-reopen",
                format!(
                    "blob GC statistics before close {:?} (stale {stale_before}) != after reopen {:?} (stale {})",
                    before.gc_stats,
                    after.gc_stats,
                    self.tree().stale_blob_bytes()
                ),
            ));
        }
        // id counters must be past every existing file
        let (next_table, next_blob) = lsm_tree::verif::id_counters(self.tree());
        if let Some(max) = after.tables.iter().map(|t| t.id).max() {
            if next_table <= max {
                return Err(self.viol(
                    "reopen",
                    "reopen/table-id-counter",
                    format!("next table id {next_table} <= existing table id {max}"),
                ));
            }
        }
        if let Some(max) = after.blobs.iter().map(|b| b.id).max() {
            if next_blob <= max {
                return Err(self.viol(
                    "reopen",
                    "reopen/blob-id-counter",
                    format!("next blob file id {next_blob} <= existing blob file id {max}"),
                ));
            }
        }
        // exact content with sequence numbers
        let mut want = self.model.durable_view();
        want.retain(|k, _| !is_wild(k));
        let got = self.dump(u64::MAX)?;
        if got != want {
            return Err(self.viol(
                "reopen",
                "reopen/content",
                format!(
                    "reopened tree holds {} but the flushed state is {}",
                    fmt_view(&got),
                    fmt_view(&want)
                ),
            ));
        }
        // History below the newest version of a key may have been garbage-collected physically;
        // since the caller restarts its counters at highest+1, the model must forget what no
        // longer exists (the content check above already compared the full newest view).
        self.model.tick();
        let present = after.present_pairs();
        self.model.resync_physical(|_| true, &present);
        let populated = after.shape.iter().filter(|l| !l.is_empty()).count();
        if populated >= 2 || after.shape.first().is_some_and(|l| l.len() >= 2) {
            self.stats.inc("reopen_nontrivial");
        }
        Ok(())
    }

    /// Full dump at snapshot `s`: key -> (value, seqno) through the public read paths.
    pub fn dump(&self, s: u64) -> R<View> {
        let mut out = View::new();
        for g in self.tree().iter(s, None) {
            let (k, v) = self.err("iter", g.into_inner())?;
            let e = self.err("get_internal_entry", self.tree().get_internal_entry(&k, s))?;
            let seqno = e.map_or(u64::MAX, |e| e.key.seqno);
            if !is_wild(&k) {
                out.insert(k.to_vec(), (v.to_vec(), seqno));
            }
        }
        Ok(out)
    }

    fn resolve_snap(&self, sel: SnapSel) -> (u64, u64, Option<usize>) {
        match sel {
            SnapSel::Latest => (self.visible.get(), self.model.ev, None),
            SnapSel::Max => (u64::MAX, self.model.ev, None),
            SnapSel::Live(i) => {
                if self.snaps.is_empty() {
                    (self.visible.get(), self.model.ev, None)
                } else {
                    let i = i % self.snaps.len();
                    (self.snaps[i].s, self.snaps[i].opened_at, Some(i))
                }
            }
        }
    }

    fn step_scan(
        &mut self,
        lo: &Bound<Vec<u8>>,
        hi: &Bound<Vec<u8>>,
        word: &[bool],
        sel: SnapSel,
        overlay: &[WriteItem],
        prefix: Option<&[u8]>,
    ) -> R<()> {
        let (s, at, _) = self.resolve_snap(sel);
        let mut view = self.model.view(s, at);
        view.retain(|k, _| !is_wild(k));
        let index = if overlay.is_empty() {
            None
        } else {
            let mt = lsm_tree::Memtable::new(u64::MAX - 1);
            for (i, w) in overlay.iter().enumerate() {
                let seq = (1u64 << 62) + i as u64;
                match w.kind {
                    WKind::Put => {
                        mt.insert(lsm_tree::InternalValue::from_components(
                            w.k.0.as_slice(),
                            w.v.0.as_slice(),
                            seq,
                            lsm_tree::ValueType::Value,
                        ));
                        view.insert(w.k.0.clone(), (w.v.0.clone(), seq));
                    }
                    _ => {
                        mt.insert(lsm_tree::InternalValue::new_tombstone(w.k.0.as_slice(), seq));
                        view.remove(&w.k.0);
                    }
                }
            }
            self.stats.inc("scan_with_overlay");
            Some((Arc::new(mt), u64::MAX))
        };
        let want: Vec<(Vec<u8>, Vec<u8>)> = match prefix {
            Some(p) => view
                .iter()
                .filter(|(k, _)| k.starts_with(p))
                .map(|(k, (v, _))| (k.clone(), v.clone()))
                .collect(),
            None => model::restrict(&view, lo, hi),
        };
        let mut it = match prefix {
            Some(p) => self.tree().prefix(p, s, index),
            None => self
                .tree()
                .range::<&[u8], _>((bound_ref(lo), bound_ref(hi)), s, index),
        };
        let mut front: Vec<(Vec<u8>, Vec<u8>)> = Vec::new();
        let mut back: Vec<(Vec<u8>, Vec<u8>)> = Vec::new();
        let mut i = 0usize;
        let mut used_front = false;
        let mut used_back = false;
        let limit = want.len() + 8;
        loop {
            let fwd = if word.is_empty() {
                true
            } else {
                word[i % word.len()]
            };
            i += 1;
            let item = if fwd {
                used_front = true;
                it.next()
            } else {
                used_back = true;
                it.next_back()
            };
            let Some(g) = item else { break };
            let (k, v) = self.err("scan item", g.into_inner())?;
            if is_wild(&k) {
                continue;
            }
            if fwd {
                front.push((k.to_vec(), v.to_vec()));
            } else {
                back.push((k.to_vec(), v.to_vec()));
            }
            if front.len() + back.len() > limit {
                break;
            }
        }
        // both ends must now be exhausted
        let extra_f = it.next().is_some();
        let extra_b = it.next_back().is_some();
        drop(it);
        let mut got = front.clone();
        let mut b = back.clone();
        b.reverse();
        got.extend(b);
        let asc = front.windows(2).all(|w| w[0].0 < w[1].0);
        let desc = back.windows(2).all(|w| w[0].0 > w[1].0);
        if got != want || !asc || !desc || extra_f || extra_b {
            let what = match prefix {
                Some(p) => format!("prefix({})", Bytes(p.to_vec()).short()),
                None => format!("range({lo:?}, {hi:?})"),
            };
            return Err(self.viol(
                "scan",
                "scan/mismatch",
                format!(
                    "{what} at seqno {s} with word {:?}: front={} back={} (extra after end: {extra_f}/{extra_b}) but the model holds {}",
                    word.iter().map(|&b| if b { 'f' } else { 'b' }).collect::<String>(),
                    fmt_kv(&front),
                    fmt_kv(&back),
                    fmt_kv(&want)
                ),
            ));
        }
        if used_front && used_back && want.len() >= 2 {
            self.stats.inc("scan_mixed_directions");
        }
        if want.is_empty() {
            self.stats.inc("scan_empty_result");
        }
        Ok(())
    }

    /// Point-read oracle for one snapshot.
    fn check_point_reads(&mut self, s: u64, at: u64, tag: &str, frozen: Option<&View>) -> R<()> {
        let tree = self.tree.clone().unwrap();
        let n = self.probe_keys.len();
        let stride = if self.probe_window && n > 96 { n.div_ceil(64) } else { 1 };
        let phase = self.probe_round % stride;
        for (i, k) in self.probe_keys.iter().enumerate() {
            if stride > 1 && i % stride != phase && !self.touched.contains(k) {
                continue;
            }
            let want: Option<Vec<u8>> = match frozen {
                Some(f) => f.get(k).map(|(v, _)| v.clone()),
                None => self.model.get(k, s, at).map(|(v, _)| v.to_vec()),
            };
            let got = self.err("get", tree.get(k, s))?.map(|v| v.to_vec());
            if got != want {
                let class = match (&got, &want) {
                    (Some(_), None) => "resurrected-or-phantom",
                    (None, Some(_)) => "lost",
                    _ => "stale-or-wrong-value",
                };
                return Err(self.viol(
                    tag,
                    &format!("{tag}/get/{class}"),
                    format!(
                        "get({}) at seqno {s} returned {} but the model holds {}",
                        Bytes(k.clone()).short(),
                        fmt_opt(&got),
                        fmt_opt(&want)
                    ),
                ));
            }
            let c = self.err("contains_key", tree.contains_key(k, s))?;
            if c != want.is_some() {
                return Err(self.viol(
                    tag,
                    &format!("{tag}/contains_key"),
                    format!(
                        "contains_key({}) at seqno {s} = {c}, model says {}",
                        Bytes(k.clone()).short(),
                        want.is_some()
                    ),
                ));
            }
            let sz = self.err("size_of", tree.size_of(k, s))?;
            if sz != want.as_ref().map(|v| v.len() as u32) {
                return Err(self.viol(
                    tag,
                    &format!("{tag}/size_of"),
                    format!(
                        "size_of({}) at seqno {s} = {sz:?}, model says {:?}",
                        Bytes(k.clone()).short(),
                        want.as_ref().map(Vec::len)
                    ),
                ));
            }
        }
        Ok(())
    }

    fn check_full_scan(&mut self, s: u64, want: &View, tag: &str) -> R<()> {
        let tree = self.tree.clone().unwrap();
        let mut got: Vec<(Vec<u8>, Vec<u8>)> = Vec::new();
        for g in tree.iter(s, None) {
            let (k, v) = self.err("iter item", g.into_inner())?;
            got.push((k.to_vec(), v.to_vec()));
        }
        let want_v: Vec<(Vec<u8>, Vec<u8>)> = want
            .iter()
            .filter(|(k, _)| !is_wild(k))
            .map(|(k, (v, _))| (k.clone(), v.clone()))
            .collect();
        if self.has_wild {
            got.retain(|(k, _)| !is_wild(k));
        }
        if got != want_v {
            return Err(self.viol(
                tag,
                &format!("{tag}/iter"),
                format!(
                    "iter at seqno {s} yields {} but the model holds {}",
                    fmt_kv(&got),
                    fmt_kv(&want_v)
                ),
            ));
        }
        if self.has_wild {
            // len / is_empty / first / last would count the wild keys
            return Ok(());
        }
        let n = self.err("len", tree.len(s, None))?;
        if n != want_v.len() {
            return Err(self.viol(
                tag,
                &format!("{tag}/len"),
                format!("len at seqno {s} = {n}, model has {}", want_v.len()),
            ));
        }
        let e = self.err("is_empty", tree.is_empty(s, None))?;
        if e != want_v.is_empty() {
            return Err(self.viol(
                tag,
                &format!("{tag}/is_empty"),
                format!("is_empty at seqno {s} = {e}, model has {} items", want_v.len()),
            ));
        }
        let first = match tree.first_key_value(s, None) {
            Some(g) => Some(self.err("first_key_value", g.into_inner())?),
            None => None,
        };
        let last = match tree.last_key_value(s, None) {
            Some(g) => Some(self.err("last_key_value", g.into_inner())?),
            None => None,
        };
        let f = first.map(|(k, v)| (k.to_vec(), v.to_vec()));
        let l = last.map(|(k, v)| (k.to_vec(), v.to_vec()));
        if f.as_ref() != want_v.first() || l.as_ref() != want_v.last() {
            return Err(self.viol(
                tag,
                &format!("{tag}/first_last"),
                format!(
                    "first/last_key_value at seqno {s} = {:?}/{:?}, model {:?}/{:?}",
                    f.map(|x| Bytes(x.0).short()),
                    l.map(|x| Bytes(x.0).short()),
                    want_v.first().map(|x| Bytes(x.0.clone()).short()),
                    want_v.last().map(|x| Bytes(x.0.clone()).short())
                ),
            ));
        }
        Ok(())
    }

    /// Point reads and full scans at the newest snapshot and at every live snapshot.
    pub fn check_reads(&mut self) -> R<()> {
        // 1. point reads at the newest snapshot (both spellings of "newest")
        let s = self.visible.get();
        let at = self.model.ev;
        self.check_point_reads(s, at, "point", None)?;
        self.check_point_reads(u64::MAX, at, "point", None)?;
        // 2. full scan at the newest snapshot
        let latest = self.model.view(s, at);
        self.check_full_scan(s, &latest, "scan")?;
        // 3. live snapshots keep their frozen view
        for i in 0..self.snaps.len() {
            let sn = self.snaps[i].clone();
            self.check_point_reads(sn.s, sn.opened_at, "snapshot", Some(&sn.frozen))?;
            self.check_full_scan(sn.s, &sn.frozen, "snapshot")?;
            self.stats.inc("snapshot_rechecks");
            // did this snapshot resolve to a non-latest super version?
            let cur = lsm_tree::verif::dump_current(self.tree()).id;
            let sv = lsm_tree::verif::dump_for_snapshot(self.tree(), sn.s).id;
            if sv != cur {
                self.stats.inc("probe_snapshot_on_older_version");
            }
        }
        Ok(())
    }

    fn post_step(&mut self, op: &Op, version_changed: bool, maintenance_t: Option<u64>) -> R<()> {
        if !self.opts.full_checks {
            return Ok(());
        }
        let is_read_only = matches!(op, Op::Scan { .. } | Op::Prefix { .. } | Op::Clock { .. });
        if is_read_only {
            return Ok(());
        }
        self.probe_window = !version_changed;
        self.probe_round += 1;
        let r = self.check_reads();
        self.probe_window = false;
        self.touched.clear();
        r?;
        // 4. structural audits after version changes
        if version_changed {
            self.audit_step(maintenance_t)?;
        }
        Ok(())
    }

    /// A model-independent oracle that is not decisive for the property under check must not
    /// end the run: its first failure is recorded as an observation and the oracle is switched
    /// off, so the decisive oracle keeps its coverage.
    fn soft(&mut self, r: R<()>) -> R<()> {
        match r {
            Err(v)
                if !self.opts.decisive.contains(&v.tag)
                    && matches!(v.tag.as_str(), "structure" | "gc_stats" | "seqno" | "files" | "pointer") =>
            {
                self.stats.inc(&format!("obs:{} ({})", v.class, v.tag));
                self.stats.observations.push(format!("{}: {}", v.class, v.msg));
                self.disabled.insert(v.tag);
                Ok(())
            }
            other => other,
        }
    }

    fn check_structure_oracle(&mut self, a: &Audit) -> R<()> {
        let probs = a.check_structure();
        if let Some(p) = probs.first() {
            return Err(self.viol(
                "structure",
                &format!("structure/{}", classify_structure(p)),
                format!("version {}: {}", a.version_id, probs.join("; ")),
            ));
        }
        let probs = a.check_version_file(&self.root);
        if let Some(p) = probs.first() {
            return Err(self.viol(
                "structure",
                "structure/version-file",
                format!("version {}: {p}", a.version_id),
            ));
        }
        Ok(())
    }

    fn audit_step(&mut self, maintenance_t: Option<u64>) -> R<()> {
        let a = audit::audit_tree(self.tree());
        self.stats.states.insert(a.shape_hash());
        self.stats.inc("audits");
        // C07
        if !self.disabled.contains("structure") {
            let r = self.check_structure_oracle(&a);
            self.soft(r)?;
        }
        if a.shape.first().is_some_and(|l| l.len() >= 2)
            || a.shape.iter().any(|l| l.iter().any(|&n| n >= 2))
        {
            self.stats.inc("audit_nontrivial_shape");
        }
        if a.tables.iter().any(|t| t.level > 0) {
            self.stats.inc("audit_has_lower_level");
        }
        // C18
        if !self.disabled.contains("seqno") {
            let r = self.check_seqnos(&a);
            self.soft(r)?;
        }
        // C09
        if self.spec.cfg.blob.is_some() && !self.disabled.contains("gc_stats") {
            let r = self.check_gc_stats(&a);
            self.soft(r)?;
        }
        // C20
        if !self.disabled.contains("files") {
            let r = self.check_files(&a, maintenance_t);
            self.soft(r)?;
        }
        self.last_audit = Some(a);
        Ok(())
    }

    fn check_seqnos(&mut self, a: &Audit) -> R<()> {
        let (persisted, mem, all) = audit::api_seqnos(self.tree());
        let want_p = a.max_persisted_seqno();
        if persisted != want_p {
            return Err(self.viol(
                "seqno",
                "seqno/persisted",
                format!(
                    "get_highest_persisted_seqno = {persisted:?} but the largest seqno stored in tables is {want_p:?}"
                ),
            ));
        }
        let want_m = self.model.max_seqno(|v| v.loc != Loc::Disk);
        if mem != want_m {
            return Err(self.viol(
                "seqno",
                "seqno/memtable",
                format!(
                    "get_highest_memtable_seqno = {mem:?} but the largest seqno written to memtables is {want_m:?}"
                ),
            ));
        }
        if all != want_p.max(want_m) {
            return Err(self.viol(
                "seqno",
                "seqno/overall",
                format!("get_highest_seqno = {all:?}, expected {:?}", want_p.max(want_m)),
            ));
        }
        if a.tables.iter().any(|t| t.global_seqno > 0) {
            self.stats.inc("seqno_checked_with_global_seqno");
        }
        Ok(())
    }

    fn check_gc_stats(&mut self, a: &Audit) -> R<()> {
        let refs = a.blob_refs();
        for (f, set) in &refs {
            let e = self.blob_seen.entry(*f).or_default();
            for (off, od, sz) in set {
                e.insert(*off, (*od, *sz));
            }
        }
        let in_version: BTreeSet<u64> = a.blobs.iter().map(|b| b.id).collect();
        // safety: no pointer into a file the version lacks or that is missing on disk
        for (f, set) in &refs {
            if !in_version.contains(f) {
                return Err(self.viol(
                    "pointer",
                    "pointer/dangling",
                    format!(
                        "version {} has {} pointer(s) into blob file {f}, which the version does not contain",
                        a.version_id,
                        set.len()
                    ),
                ));
            }
        }
        let stats: BTreeMap<u64, (usize, u64, u64)> = a
            .gc_stats
            .iter()
            .map(|(id, l, b, o)| (*id, (*l, *b, *o)))
            .collect();
        let mut stale_sum = 0u64;
        for b in &a.blobs {
            let r = refs.get(&b.id);
            let ref_cnt = r.map_or(0, BTreeSet::len) as u64;
            let ref_bytes: u64 = r.map_or(0, |s| s.iter().map(|x| u64::from(x.2)).sum());
            let ref_disk: u64 = r.map_or(0, |s| s.iter().map(|x| u64::from(x.1)).sum());
            let want_len = b.items.saturating_sub(ref_cnt);
            let want_bytes = b.total_uncompressed.saturating_sub(ref_bytes);
            let (got_len, got_bytes, got_disk) = stats.get(&b.id).copied().unwrap_or((0, 0, 0));
            if got_len as u64 != want_len || got_bytes != want_bytes {
                return Err(self.viol(
                    "gc_stats",
                    "gc_stats/entry-mismatch",
                    format!(
                        "version {}: blob file {} holds {} blobs / {} bytes, tables reference {ref_cnt} / {ref_bytes}, so garbage is {want_len} / {want_bytes}, but gc_stats records {got_len} / {got_bytes}",
                        a.version_id, b.id, b.items, b.total_uncompressed
                    ),
                ));
            }
            // on-disk bytes: only checkable when every blob of the file has been observed
            if let Some(seen) = self.blob_seen.get(&b.id) {
                if seen.len() as u64 == b.items {
                    let all_disk: u64 = seen.values().map(|x| u64::from(x.0)).sum();
                    let want_disk = all_disk.saturating_sub(ref_disk);
                    if got_disk != want_disk {
                        return Err(self.viol(
                            "gc_stats",
                            "gc_stats/on-disk-bytes",
                            format!(
                                "version {}: blob file {} garbage on-disk bytes should be {want_disk}, gc_stats records {got_disk}",
                                a.version_id, b.id
                            ),
                        ));
                    }
                    self.stats.inc("gc_on_disk_bytes_checked");
                } else {
                    self.stats.inc("gc_on_disk_bytes_unknown");
                }
            }
            stale_sum += got_disk;
            if want_len > 0 {
                self.stats.inc("gc_nonzero_garbage_checked");
            }
            if ref_cnt == 0 && self.cur_merge {
                let lag = self.dead_blob_lag.entry(b.id).or_insert(0);
                *lag += 1;
                self.stats.inc("probe_dead_blob_file_lagging");
            }
        }
        self.dead_blob_lag.retain(|id, _| in_version.contains(id));
        if self.cur_merge {
            self.check_dead_blob_liveness()?;
        }
        // An entry for a file that has left the version is outside the property's statement
        // (which quantifies over the version's blob files); it must not influence the sum below.
        // Counted as a probe only: the crate's own tests pin that such entries exist.
        if stats.keys().any(|id| !in_version.contains(id)) {
            self.stats.inc("probe_gc_stats_entry_for_absent_file");
        }
        let stale = self.tree().stale_blob_bytes();
        if stale != stale_sum {
            return Err(self.viol(
                "gc_stats",
                "gc_stats/stale-sum",
                format!("stale_blob_bytes() = {stale} but the per-file garbage sums to {stale_sum}"),
            ));
        }
        Ok(())
    }

    /// Called by checks that just performed a merge-type version change: a blob file that had
    /// zero references already before the *previous* merge-type change must be gone by now.
    pub fn check_dead_blob_liveness(&mut self) -> R<()> {
        if let Some((id, lag)) = self.dead_blob_lag.iter().find(|(_, &l)| l >= 2) {
            return Err(self.viol(
                "gc_stats",
                "gc_stats/dead-file-not-dropped",
                format!("blob file {id} has had no references for {lag} consecutive merge/drop version changes but is still part of the version"),
            ));
        }
        Ok(())
    }

    fn check_files(&mut self, a: &Audit, maintenance_t: Option<u64>) -> R<()> {
        let hist = lsm_tree::verif::history(self.tree());
        let ls = audit::list_dir(&self.root);
        let mut named_tables: BTreeSet<String> = BTreeSet::new();
        let mut named_blobs: BTreeSet<String> = BTreeSet::new();
        let mut named_versions: BTreeSet<String> = BTreeSet::new();
        for h in &hist {
            for t in &h.table_ids {
                named_tables.insert(t.to_string());
            }
            for b in &h.blob_file_ids {
                named_blobs.insert(b.to_string());
            }
            named_versions.insert(format!("v{}", h.version_id));
        }
        // safety: everything a retained version (hence any live snapshot) names exists
        for t in &named_tables {
            if !ls.tables.contains(t) {
                return Err(self.viol(
                    "files",
                    "files/missing-table",
                    format!("table file {t} is named by a retained version but missing from tables/"),
                ));
            }
        }
        for b in &named_blobs {
            if !ls.blobs.contains(b) {
                return Err(self.viol(
                    "files",
                    "files/missing-blob",
                    format!("blob file {b} is named by a retained version but missing from blobs/"),
                ));
            }
        }
        let cur = format!("v{}", a.version_id);
        if !ls.versions.contains(&cur) || !ls.has_current {
            return Err(self.viol(
                "files",
                "files/missing-version",
                format!("version file {cur} or `current` is missing"),
            ));
        }
        for sn in &self.snaps {
            let d = lsm_tree::verif::dump_for_snapshot(self.tree(), sn.s);
            for t in d.levels.iter().flatten().flatten() {
                if !ls.tables.contains(&t.id().to_string()) {
                    return Err(self.viol(
                        "files",
                        "files/missing-table-for-snapshot",
                        format!("table {} needed by live snapshot {} is missing", t.id(), sn.s),
                    ));
                }
            }
        }
        // reclamation: nothing exists that no retained version names
        let extra_t: Vec<&String> = ls.tables.difference(&named_tables).collect();
        let extra_b: Vec<&String> = ls.blobs.difference(&named_blobs).collect();
        let extra_v: Vec<&String> = ls.versions.difference(&named_versions).collect();
        if !extra_t.is_empty() || !extra_b.is_empty() || !extra_v.is_empty() {
            return Err(self.viol(
                "files",
                if !extra_t.is_empty() {
                    "files/leaked-table"
                } else if !extra_b.is_empty() {
                    "files/leaked-blob"
                } else {
                    "files/leaked-version"
                },
                format!(
                    "directory holds files no retained version names: tables {extra_t:?} blobs {extra_b:?} versions {extra_v:?} (retained versions: {:?})",
                    hist.iter().map(|h| (h.version_id, h.seqno)).collect::<Vec<_>>()
                ),
            ));
        }
        if !ls.other.is_empty() {
            self.stats.inc("probe_leftover_tmp_files");
        }
        // retention: after maintenance(T), at most one retained version lies below T
        if let Some(t) = maintenance_t {
            if t > 0 {
                let below = hist.iter().filter(|h| h.seqno < t).count();
                if below > 1 {
                    return Err(self.viol(
                        "files",
                        "files/version-history-not-collected",
                        format!(
                            "after maintenance with watermark {t}, {below} versions below the watermark are still retained: {:?}",
                            hist.iter().map(|h| (h.version_id, h.seqno)).collect::<Vec<_>>()
                        ),
                    ));
                }
                if hist.len() < self.stats.get("max_history_len") as usize {
                    self.stats.inc("probe_version_gc_removed_entries");
                }
            }
        }
        let m = self.stats.get("max_history_len").max(hist.len() as u64);
        self.stats.counters.insert("max_history_len".into(), m);
        Ok(())
    }

    /// C20 end-of-run phase: release all snapshots, run two flushes with the highest legal
    /// watermark and demand that the directory holds exactly the current version's files
    /// (plus at most the one predecessor version file the retention rule keeps).
    pub fn final_reclaim_phase(&mut self) -> R<()> {
        self.snaps.clear();
        for round in 0..2 {
            let k = format!("zz-reclaim-{round}").into_bytes();
            let v = format!("rv{}-{}", self.op_idx, round).into_bytes();
            self.do_write(&[WriteItem {
                k: Bytes(k),
                kind: WKind::Put,
                v: Bytes(v),
            }]);
            let t = self.resolve_wm(Wm::Max);
            let r = self.tree().flush_active_memtable(t);
            self.err("flush_active_memtable", r)?;
            self.model.tick();
            self.model.rotate();
            self.model.flush_sealed();
        }
        let a = audit::audit_tree(self.tree());
        let ls = audit::list_dir(&self.root);
        let hist = lsm_tree::verif::history(self.tree());
        let cur_t: BTreeSet<String> = a.tables.iter().map(|t| t.id.to_string()).collect();
        let cur_b: BTreeSet<String> = a.blobs.iter().map(|b| b.id.to_string()).collect();
        if ls.tables != cur_t || ls.blobs != cur_b {
            return Err(self.viol(
                "files",
                if ls.tables != cur_t {
                    "files/not-reclaimed-table"
                } else {
                    "files/not-reclaimed-blob"
                },
                format!(
                    "after releasing all snapshots and two flushes with the highest legal watermark, tables/ = {:?} blobs/ = {:?} but the current version names tables {:?} blobs {:?}",
                    ls.tables, ls.blobs, cur_t, cur_b
                ),
            ));
        }
        let allowed: BTreeSet<String> = hist.iter().map(|h| format!("v{}", h.version_id)).collect();
        if hist.len() > 2 || ls.versions != allowed {
            return Err(self.viol(
                "files",
                "files/not-reclaimed-version",
                format!(
                    "after the reclamation phase version files {:?} exist, retained history is {:?}",
                    ls.versions,
                    hist.iter().map(|h| (h.version_id, h.seqno)).collect::<Vec<_>>()
                ),
            ));
        }
        self.stats.inc("final_reclaim_phase_checked");
        Ok(())
    }

    /// After a reopen the directory must hold exactly what the current version names.
    pub fn check_files_after_reopen(&mut self) -> R<()> {
        let a = audit::audit_tree(self.tree());
        let ls = audit::list_dir(&self.root);
        let cur_t: BTreeSet<String> = a.tables.iter().map(|t| t.id.to_string()).collect();
        let cur_b: BTreeSet<String> = a.blobs.iter().map(|b| b.id.to_string()).collect();
        let cur_v: BTreeSet<String> = [format!("v{}", a.version_id)].into_iter().collect();
        if ls.tables != cur_t || ls.blobs != cur_b || ls.versions != cur_v {
            return Err(self.viol(
                "files",
                "files/after-reopen",
                format!(
                    "after reopen the directory holds tables {:?} blobs {:?} versions {:?}, the current version names tables {:?} blobs {:?} and is {:?}",
                    ls.tables, ls.blobs, ls.versions, cur_t, cur_b, cur_v
                ),
            ));
        }
        Ok(())
    }

    /// Runs the whole spec. Returns the first failing oracle (decisive or not).
    pub fn run(&mut self) -> R<()> {
        self.open()?;
        let ops = self.spec.ops.clone();
        for op in &ops {
            self.step(op)?;
            if matches!(op, Op::Reopen) && self.opts.full_checks && !self.disabled.contains("files") {
                let r = self.check_files_after_reopen();
                self.soft(r)?;
            }
        }
        if self.opts.final_reclaim_phase && !self.disabled.contains("files") {
            self.final_reclaim_phase()?;
        }
        Ok(())
    }
}

fn classify_structure(p: &str) -> &'static str {
    if p.contains("consulted first") {
        "recency-order"
    } else if p.contains("not disjoint") || p.contains("spans tables") {
        "run-disjointness"
    } else if p.contains("does not exist") {
        "missing-file"
    } else if p.contains("metadata") || p.contains("count") || p.contains("highest_seqno") {
        "metadata"
    } else {
        "other"
    }
}

pub fn fmt_opt(v: &Option<Vec<u8>>) -> String {
    match v {
        Some(v) => Bytes(v.clone()).short(),
        None => "nothing".into(),
    }
}

pub fn fmt_kv(v: &[(Vec<u8>, Vec<u8>)]) -> String {
    let parts: Vec<String> = v
        .iter()
        .take(12)
        .map(|(k, v)| format!("{}={}", Bytes(k.clone()).short(), Bytes(v.clone()).short()))
        .collect();
    format!(
        "[{}{}]",
        parts.join(", "),
        if v.len() > 12 {
            format!(", ..{} more", v.len() - 12)
        } else {
            String::new()
        }
    )
}

pub fn fmt_view(v: &View) -> String {
    let parts: Vec<String> = v
        .iter()
        .take(12)
        .map(|(k, (v, s))| {
            format!(
                "{}={}@{}",
                Bytes(k.clone()).short(),
                Bytes(v.clone()).short(),
                s
            )
        })
        .collect();
    format!(
        "{{{}{}}}",
        parts.join(", "),
        if v.len() > 12 {
            format!(", ..{} more", v.len() - 12)
        } else {
            String::new()
        }
    )
}
