//! Glue between property definitions and engines: spec generation, execution of one spec
//! inside the run child, minimisation and replay files.

use crate::engine::{Engine, EngineOpts, Stats, Violation};
use crate::props::{EngineKind, PropDef, ALWAYS_DECISIVE};
use crate::spec::*;
use serde::{Deserialize, Serialize};
use std::collections::BTreeMap;
use std::path::{Path, PathBuf};
use std::sync::Mutex;

#[derive(Clone, Debug, Serialize, Deserialize, Default)]
pub struct RunResult {
    pub index: u64,
    pub seed: u64,
    /// ok | violation | observation | harness_error
    pub outcome: String,
    #[serde(default)]
    pub tag: String,
    #[serde(default)]
    pub class: String,
    #[serde(default)]
    pub msg: String,
    #[serde(default)]
    pub at_op: usize,
    #[serde(default)]
    pub counters: BTreeMap<String, u64>,
    #[serde(default)]
    pub states: Vec<u64>,
    #[serde(default)]
    pub interleavings: Vec<u64>,
    #[serde(default)]
    pub nontrivial_digests: Vec<u64>,
    #[serde(default)]
    pub evaluations: u64,
    #[serde(default)]
    pub n_ops: u64,
    #[serde(default)]
    pub sim_ns: u64,
    #[serde(default)]
    pub digest: u64,
    #[serde(default)]
    pub sample: Option<serde_json::Value>,
    #[serde(default)]
    pub spec: Option<RunSpec>,
    #[serde(default)]
    pub wall_ms: u64,
    #[serde(default)]
    pub log: Vec<String>,
}

impl RunResult {
    pub fn empty(index: u64, seed: u64) -> Self {
        Self {
            index,
            seed,
            outcome: "ok".into(),
            ..Default::default()
        }
    }
}

static PANIC_MSG: Mutex<String> = Mutex::new(String::new());

pub fn install_panic_hook() {
    std::panic::set_hook(Box::new(|info| {
        let loc = info
            .location()
            .map(|l| format!("{}:{}", l.file(), l.line()))
            .unwrap_or_default();
        let msg = if let Some(s) = info.payload().downcast_ref::<&str>() {
            (*s).to_string()
        } else if let Some(s) = info.payload().downcast_ref::<String>() {
            s.clone()
        } else {
            "<non-string panic>".to_string()
        };
        if let Ok(mut g) = PANIC_MSG.lock() {
            if g.is_empty() {
                *g = format!("{msg} at {loc}");
            }
        }
    }));
}

pub fn take_panic_msg() -> String {
    PANIC_MSG
        .lock()
        .map(|mut g| std::mem::take(&mut *g))
        .unwrap_or_default()
}

/// Normalises a panic message into a class (numbers and paths removed).
pub fn panic_class(msg: &str) -> String {
    let (text, loc) = match msg.rfind(" at ") {
        Some(i) => (&msg[..i], &msg[i + 4..]),
        None => (msg, ""),
    };
    let file = loc.rsplit('/').next().unwrap_or(loc);
    let file = file.split(':').next().unwrap_or(file);
    let head: String = text
        .chars()
        .take(60)
        .map(|c| if c.is_ascii_digit() { '#' } else { c })
        .collect();
    format!("panic/{file}/{}", head.replace(['\n', '"'], " ").trim())
}

pub fn generate(prop: &PropDef, tier: &str, seed: u64, index: u64) -> RunSpec {
    // C07 quantifies over schedules too: every fourth run audits published versions under the
    // concurrent engine (structure oracle decisive, the rest observations)
    if prop.id == "C07" && index % 4 == 3 {
        return crate::conc::gen_conc(prop, seed, tier);
    }
    // C18: the high-water marks must also hold while a flush moves data from memtable to table
    if prop.id == "C18" && index % 4 == 3 {
        return crate::conc::gen_conc(prop, seed, tier);
    }
    // C14: memtable data must survive an ingestion that finishes while other threads rotate,
    // flush and compact; ingested batches become visible atomically to concurrent readers
    if prop.id == "C14" && index % 4 == 3 {
        return crate::conc::gen_conc(prop, seed, tier);
    }
    // C15: clear() must be atomic against a writer, readers and a flush in progress
    if prop.id == "C15" && index % 4 == 3 {
        return crate::conc::gen_conc(prop, seed, tier);
    }
    // C02: a snapshot must stay stable while other threads write, flush, compact and ingest:
    // every fourth run holds snapshots under the concurrent engine and re-reads them
    if prop.id == "C02" && index % 4 == 3 {
        return crate::conc::gen_conc(prop, seed, tier);
    }
    // ... and over failed operations that leave partial files: every fourth run injects one
    // I/O error into a flush/compaction/drop_range/clear/ingest and reopens afterwards
    if prop.id == "C20" && index % 4 == 2 {
        let mut p = (prop.profile)();
        p.min_ops = 4;
        p.max_ops = 20;
        let mut s = crate::gen::gen_run(prop.id, seed, &p);
        s.ops.retain(|o| !matches!(o, Op::Scan { .. } | Op::Prefix { .. }));
        let mut plan = crate::fault::default_plan("quick");
        plan.samples = 6;
        s.extra = serde_json::to_value(plan).unwrap();
        return s;
    }
    // C20 quantifies over crash points too: every fourth run is a journaled history whose crash
    // images are recovered and whose directory must then equal the recovered version
    if prop.id == "C20" && index % 4 == 3 {
        let mut p = (prop.profile)();
        p.min_ops = 4;
        p.max_ops = 22;
        let mut s = crate::gen::gen_run(prop.id, seed, &p);
        s.ops.retain(|o| !matches!(o, Op::SnapOpen | Op::SnapClose { .. } | Op::Scan { .. } | Op::Prefix { .. }));
        let mut plan = crate::crash::default_plan("quick");
        plan.sample_positions = 6;
        s.extra = serde_json::to_value(plan).unwrap();
        return s;
    }
    match prop.engine {
        EngineKind::Crash => {
            let mut p = (prop.profile)();
            if tier == "thorough" {
                p.max_ops = 14;
            }
            let mut s = crate::gen::gen_run(prop.id, seed, &p);
            s.extra = serde_json::to_value(crate::crash::default_plan(tier)).unwrap();
            s
        }
        EngineKind::Multi => crate::multi::gen_multi(prop, seed),
        EngineKind::Conc => crate::conc::gen_conc(prop, seed, tier),
        EngineKind::Corrupt => {
            let mut s = crate::gen::gen_run(prop.id, seed, &(prop.profile)());
            s.extra = serde_json::to_value(crate::corrupt::default_plan(tier)).unwrap();
            s
        }
        EngineKind::Fault => {
            let mut p = (prop.profile)();
            if tier == "thorough" {
                p.max_ops = 12;
            }
            let mut s = crate::gen::gen_run(prop.id, seed, &p);
            s.extra = serde_json::to_value(crate::fault::default_plan(tier)).unwrap();
            s
        }
        _ => crate::gen::gen_run(prop.id, seed, &(prop.profile)()),
    }
}

pub fn is_decisive(prop: &PropDef, tag: &str) -> bool {
    prop.decisive.contains(&tag) || ALWAYS_DECISIVE.contains(&tag)
}

fn sample_of(spec: &RunSpec) -> serde_json::Value {
    serde_json::json!({
        "seed": spec.seed,
        "config": spec.cfg,
        "keys": spec.keys.iter().take(8).map(Bytes::short).collect::<Vec<_>>(),
        "ops": spec.ops.iter().take(40).map(Op::short).collect::<Vec<_>>(),
        "n_ops": spec.ops.len(),
        "extra": spec.extra,
    })
}

pub fn finish_result(
    prop: &PropDef,
    spec: &RunSpec,
    index: u64,
    stats: &Stats,
    outcome: Result<(), Violation>,
    evaluations: u64,
) -> RunResult {
    let mut r = RunResult::empty(index, spec.seed);
    r.counters = stats.counters.clone();
    r.states = stats.states.iter().copied().collect();
    r.n_ops = spec.ops.len() as u64;
    r.sim_ns = stats.sim_ns;
    r.evaluations = evaluations;
    let mut joined = String::new();
    for l in &stats.log {
        joined.push_str(l);
        joined.push('\n');
    }
    for (k, v) in &stats.counters {
        joined.push_str(&format!("{k}={v};"));
    }
    // reach probes compiled into lsm-tree (feature verif): rare branches actually taken
    for (k, v) in crate::sched::reach_counts() {
        *r.counters.entry(format!("reach_{k}")).or_insert(0) += v;
        joined.push_str(&format!("reach_{k}={v};"));
    }
    r.digest = crate::rng::hash_bytes(joined.as_bytes());
    if (prop.nontrivial)(stats) {
        r.nontrivial_digests.push(r.digest);
    }
    if index < 3 {
        r.sample = Some(sample_of(spec));
    }
    if std::env::var("LSMSIM_KEEP_LOG").is_ok() {
        r.log = stats.log.clone();
    }
    if let Err(v) = outcome {
        r.tag = v.tag.clone();
        r.class = v.class.clone();
        r.msg = v.msg.clone();
        r.at_op = v.at_op;
        if is_decisive(prop, &v.tag) {
            r.outcome = "violation".into();
            r.spec = Some(spec.clone());
        } else {
            r.outcome = "observation".into();
        }
    }
    r
}

/// Executes one spec (inside the run child).
pub fn run_spec(prop: &PropDef, spec: &RunSpec, workdir: &Path, index: u64) -> RunResult {
    install_panic_hook();
    match spec.extra.get("engine").and_then(|e| e.as_str()) {
        Some("conc") => return crate::conc::run_conc(prop, spec, workdir, index),
        Some("crash") => return crate::crash::run_crash(prop, spec, workdir, index),
        Some("fault") => return crate::fault::run_fault(prop, spec, workdir, index),
        _ => {}
    }
    match prop.engine {
        EngineKind::Seq => run_seq(prop, spec, workdir, index),
        EngineKind::Crash => crate::crash::run_crash(prop, spec, workdir, index),
        EngineKind::Fault => crate::fault::run_fault(prop, spec, workdir, index),
        EngineKind::Corrupt => crate::corrupt::run_corrupt(prop, spec, workdir, index),
        EngineKind::Multi => crate::multi::run_multi(prop, spec, workdir, index),
        EngineKind::Conc => crate::conc::run_conc(prop, spec, workdir, index),
        _ => run_seq(prop, spec, workdir, index),
    }
}

fn run_seq(prop: &PropDef, spec: &RunSpec, workdir: &Path, index: u64) -> RunResult {
    let opts = EngineOpts {
        decisive: prop.decisive.iter().map(|s| (*s).to_string()).collect(),
        full_checks: true,
        final_reclaim_phase: prop.final_reclaim,
    };
    let root = workdir.join("t");
    let mut e = Engine::new(spec.clone(), root, opts, None);
    let r = std::panic::catch_unwind(std::panic::AssertUnwindSafe(|| e.run()));
    let outcome = match r {
        Ok(o) => o,
        Err(_) => {
            let msg = take_panic_msg();
            Err(Violation {
                tag: "panic".into(),
                class: panic_class(&msg),
                msg: format!("panic during op #{}: {msg}", e.op_idx),
                at_op: e.op_idx,
            })
        }
    };
    let stats = e.stats.clone();
    // drop the tree before the directory disappears
    std::mem::forget(e);
    finish_result(prop, spec, index, &stats, outcome, 1)
}

pub fn expected_probes(prop: &PropDef) -> Vec<&'static str> {
    match prop.id {
        "C01" => vec!["merges_done", "probe_trivial_move", "op_reopen"],
        "C02" => vec![
            "probe_snapshot_on_older_version",
            "probe_version_gc_removed_entries",
        ],
        "C03" => vec!["scan_mixed_directions", "scan_with_overlay", "scan_empty_result"],
        "C04" => vec!["reopen_nontrivial"],
        "C07" => vec!["audit_nontrivial_shape", "probe_trivial_move"],
        "C08" => vec!["probe_blob_relocation", "probe_blob_file_dropped"],
        "C09" => vec![
            "gc_nonzero_garbage_checked",
            "gc_on_disk_bytes_checked",
            "probe_dead_blob_file_lagging",
        ],
        "C13" => vec!["op_remove_weak"],
        "C14" => vec!["ingest_with_memtable_data"],
        "C15" => vec!["drop_range_dropped_tables", "drop_range_empty_or_inverted"],
        "C17" => vec![
            "filter_verdict_remove",
            "filter_verdict_replace_small",
            "filter_verdict_replace_large",
            "filter_verdict_remove_weak",
            "filter_verdict_destroy",
        ],
        "C18" => vec!["seqno_checked_with_global_seqno"],
        "C19" => vec!["fifo_removed_by_size", "fifo_removed_expired", "fifo_noop"],
        "C20" => vec![
            "final_reclaim_phase_checked",
            "probe_version_gc_removed_entries",
        ],
        _ => vec![],
    }
}

/// Generator preconditions that any sub-history must still satisfy (single-delete discipline
/// for once-class keys); candidates violating them are not valid histories.
pub fn discipline_ok(prop: &PropDef, spec: &RunSpec) -> bool {
    let profile = (prop.profile)();
    let mut d = crate::gen::Discipline::default();
    for op in &spec.ops {
        match op {
            Op::Write { items } => {
                for w in items {
                    if !d.write(&profile, &w.k.0, w.kind) {
                        return false;
                    }
                }
            }
            Op::Ingest { items, mid, .. } => {
                for w in mid.iter().flatten().chain(items.iter()) {
                    if !d.write(&profile, &w.k.0, w.kind) {
                        return false;
                    }
                }
                d.on_op(op);
            }
            other => d.on_op(other),
        }
    }
    true
}

pub fn replay_path(prop: &PropDef, seed: u64, dir: &Path) -> PathBuf {
    dir.join("replays").join(format!("{}-{seed}.json", prop.id))
}

pub fn write_replay(prop: &PropDef, r: &RunResult, dir: &Path, minimised: bool) -> PathBuf {
    let path = replay_path(prop, r.seed, dir);
    let _ = std::fs::create_dir_all(path.parent().unwrap());
    if let Some(spec) = &r.spec {
        let rf = ReplayFile {
            spec: spec.clone(),
            violation_class: r.class.clone(),
            message: r.msg.clone(),
            event_digest: r.digest,
            minimised,
            original_ops: spec.ops.len(),
        };
        let _ = std::fs::write(&path, serde_json::to_string_pretty(&rf).unwrap());
    }
    path
}

/// ddmin over the operation list, then configuration simplification; a candidate is kept only
/// if the same violation class persists. Bounded by wall-clock.
/// Minimisation of a concurrent run: drop whole threads, then halve action lists, re-deriving
/// the schedule from the same scheduler seed each time (the recorded decision list only fits the
/// original workload); a candidate is kept if the same violation class recurs. The final replay
/// file carries the decision list of the minimised run.
fn minimise_conc(prop: &PropDef, r: &RunResult, dir: &Path, spec0: RunSpec) -> PathBuf {
    let start = std::time::Instant::now();
    let budget = 90.0;
    let class = r.class.clone();
    let mut best: crate::conc::ConcSpec = match serde_json::from_value(spec0.extra.clone()) {
        Ok(c) => c,
        Err(_) => return write_replay(prop, r, dir, false),
    };
    let mut best_res = r.clone();
    let acts0: usize = best.threads.iter().map(|t| t.1.len()).sum();
    let mut trials = 0u32;
    let mut attempt = |cand: &crate::conc::ConcSpec| -> Option<RunResult> {
        let mut c = cand.clone();
        c.decisions.clear();
        let mut s = spec0.clone();
        s.extra = serde_json::to_value(&c).ok()?;
        let res = crate::pool::run_spec_in_child(prop, &s, 120.0);
        if res.outcome == "violation" && res.class == class {
            Some(res)
        } else {
            None
        }
    };
    // 1. whole threads (never the writer)
    let mut t = best.threads.len();
    while t > 0 && start.elapsed().as_secs_f64() < budget {
        t -= 1;
        if best.threads[t].0 == "writer" || best.threads[t].1.is_empty() {
            continue;
        }
        let mut cand = best.clone();
        cand.threads[t].1.clear();
        trials += 1;
        if let Some(res) = attempt(&cand) {
            best = cand;
            best_res = res;
        }
    }
    // 2. halves / quarters of every action list
    for t in 0..best.threads.len() {
        let mut chunk = best.threads[t].1.len() / 2;
        while chunk >= 1 && start.elapsed().as_secs_f64() < budget {
            let mut i = 0;
            while i < best.threads[t].1.len() && start.elapsed().as_secs_f64() < budget {
                let end = (i + chunk).min(best.threads[t].1.len());
                let mut cand = best.clone();
                cand.threads[t].1.drain(i..end);
                trials += 1;
                if let Some(res) = attempt(&cand) {
                    best = cand;
                    best_res = res;
                } else {
                    i += chunk;
                }
            }
            chunk /= 2;
        }
    }
    // the result of the last accepted attempt carries the spec with its decision list
    let final_spec = best_res.spec.clone().unwrap_or(spec0);
    let acts1: usize = best.threads.iter().map(|t| t.1.len()).sum();
    let path = replay_path(prop, r.seed, dir);
    let _ = std::fs::create_dir_all(path.parent().unwrap());
    let rf = ReplayFile {
        spec: final_spec,
        violation_class: class,
        message: best_res.msg.clone(),
        event_digest: best_res.digest,
        minimised: true,
        original_ops: acts0,
    };
    let _ = std::fs::write(&path, serde_json::to_string_pretty(&rf).unwrap());
    eprintln!(
        "minimised concurrent workload {acts0} -> {acts1} actions in {trials} trials ({:.1}s)",
        start.elapsed().as_secs_f64()
    );
    path
}

pub fn minimise_and_write(prop: &PropDef, r: &RunResult, dir: &Path) -> PathBuf {
    let Some(spec0) = r.spec.clone() else {
        return write_replay(prop, r, dir, false);
    };
    if spec0.extra.get("engine").and_then(|e| e.as_str()) == Some("conc") {
        return minimise_conc(prop, r, dir, spec0);
    }
    let start = std::time::Instant::now();
    let budget = 60.0;
    let class = r.class.clone();
    let mut best = spec0.clone();
    let mut best_res = r.clone();
    let mut trials = 0u32;
    let mut try_spec = |cand: &RunSpec, best: &mut RunSpec, best_res: &mut RunResult| -> bool {
        if !discipline_ok(prop, cand) {
            return false;
        }
        trials += 1;
        let res = crate::pool::run_spec_in_child(prop, cand, 120.0);
        if res.outcome == "violation" && res.class == class {
            *best = cand.clone();
            *best_res = res;
            true
        } else {
            false
        }
    };
    // cut everything after the failing op first
    if r.at_op + 1 < best.ops.len() && r.tag != "panic" && r.tag != "abort" {
        let mut cand = best.clone();
        cand.ops.truncate(r.at_op + 1);
        try_spec(&cand, &mut best, &mut best_res);
    }
    let mut chunk = (best.ops.len() / 2).max(1);
    while chunk >= 1 && start.elapsed().as_secs_f64() < budget {
        let mut i = 0;
        let mut removed_any = false;
        while i < best.ops.len() && start.elapsed().as_secs_f64() < budget {
            let end = (i + chunk).min(best.ops.len());
            let mut cand = best.clone();
            cand.ops.drain(i..end);
            if try_spec(&cand, &mut best, &mut best_res) {
                removed_any = true;
            } else {
                i += chunk;
            }
        }
        if chunk == 1 && !removed_any {
            break;
        }
        if !removed_any || chunk > 1 {
            chunk = if chunk == 1 { 1 } else { chunk / 2 };
        }
    }
    // configuration knobs back to defaults, one at a time
    let plain = CfgSpec::plain();
    macro_rules! knob {
        ($f:ident) => {
            if start.elapsed().as_secs_f64() < budget && best.cfg.$f != plain.$f {
                let mut cand = best.clone();
                cand.cfg.$f = plain.$f.clone();
                try_spec(&cand, &mut best, &mut best_res);
            }
        };
    }
    knob!(block_size);
    knob!(restart_interval);
    knob!(hash_ratio);
    knob!(index_part);
    knob!(filter_part);
    knob!(pin_index);
    knob!(pin_filter);
    knob!(filter);
    knob!(expect_hits);
    knob!(lz4);
    knob!(cache_bytes);
    knob!(fd_table);
    knob!(filter_fn);
    knob!(blob);
    // simplify single ops: shrink batches
    for i in 0..best.ops.len() {
        if start.elapsed().as_secs_f64() >= budget {
            break;
        }
        if let Op::Write { items } = &best.ops[i] {
            if items.len() > 1 {
                for j in (0..items.len()).rev() {
                    let mut cand = best.clone();
                    if let Op::Write { items } = &mut cand.ops[i] {
                        if items.len() > 1 {
                            items.remove(j);
                        }
                    }
                    try_spec(&cand, &mut best, &mut best_res);
                }
            }
        }
    }
    best_res.spec = Some(best.clone());
    let path = replay_path(prop, r.seed, dir);
    let _ = std::fs::create_dir_all(path.parent().unwrap());
    let rf = ReplayFile {
        spec: best,
        violation_class: class,
        message: best_res.msg.clone(),
        event_digest: best_res.digest,
        minimised: true,
        original_ops: spec0.ops.len(),
    };
    let _ = std::fs::write(&path, serde_json::to_string_pretty(&rf).unwrap());
    eprintln!(
        "minimised {} -> {} ops in {} trials ({:.1}s)",
        spec0.ops.len(),
        rf.spec.ops.len(),
        trials,
        start.elapsed().as_secs_f64()
    );
    path
}
